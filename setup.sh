#!/bin/sh
# Offline setup: nothing to build. Verify that the interpreter imports nanite
# from the working tree and that the harness imports.
set -e
cd "$(dirname "$0")"
PYTHONPATH=/repo/src MPLBACKEND=Agg /venv/bin/python -B - <<'PY'
import pathlib, sys
import nanite, lmfit, h5py, sklearn, afmformats
p = pathlib.Path(nanite.__file__).resolve()
assert str(p).startswith("/repo/src"), p
sys.path.insert(0, ".")
import sim.core, sim.seams, sim.curves
print("setup ok: nanite from", p)
PY
