"""Simulator core shared by all engines (DESIGN.md sec. 2).

One integer decides a run: run_seed = sha256(property|VERIF_SEED|index)[:8].
A run is data: {"property", "index", "seed", "config", "ops"}; generation
(seeded) and execution (pure function of the run and the code under test) are
separate, so the replay file is simply the run.

Exit codes of a check: 0 ok, 1 VIOLATION (only after a fresh-interpreter replay
reproduced it), 2 HARNESS-ERROR.
"""
import collections
import concurrent.futures as cf
import copy
import faulthandler
import hashlib
import json
import multiprocessing
import os
import pathlib
import random
import subprocess
import sys
import time
import traceback

VERIF = pathlib.Path(__file__).resolve().parent.parent
REPLAYS = VERIF / "replays"
EVIDENCE = VERIF / "evidence"
KNOWN_FINDINGS = VERIF / "known_findings.json"

RUN_WATCHDOG_S = 300


class HarnessError(Exception):
    """Something is wrong with the harness itself (never a VIOLATION)."""


# --------------------------------------------------------------------------
# seeds, digests, canonical JSON
# --------------------------------------------------------------------------
def derive_seed(prop, base_seed, index):
    h = hashlib.sha256(f"{prop}|{base_seed}|{index}".encode()).digest()
    return int.from_bytes(h[:8], "big")


def jdump(obj):
    return json.dumps(obj, sort_keys=True, separators=(",", ":"),
                      default=_json_default)


def _json_default(o):
    import numpy as np
    if isinstance(o, (np.integer,)):
        return int(o)
    if isinstance(o, (np.floating,)):
        return float(o)
    if isinstance(o, (np.bool_,)):
        return bool(o)
    if isinstance(o, np.ndarray):
        return {"__nd__": digest_array(o)}
    if isinstance(o, pathlib.Path):
        return str(o)
    if isinstance(o, (set, frozenset)):
        return sorted(o)
    if isinstance(o, tuple):
        return list(o)
    raise TypeError(f"not JSON serialisable: {type(o)}")


def digest(obj):
    return hashlib.sha256(jdump(obj).encode()).hexdigest()[:16]


def digest_array(a):
    import numpy as np
    a = np.ascontiguousarray(a)
    h = hashlib.sha256()
    h.update(str(a.dtype).encode())
    h.update(str(a.shape).encode())
    h.update(a.tobytes())
    return h.hexdigest()[:16]


def fhex(x):
    """Exact, process independent rendering of a float (or None)."""
    if x is None:
        return None
    x = float(x)
    if x != x:
        return "nan"
    return x.hex()


# --------------------------------------------------------------------------
# scratch directories (run private, removed when the run ends)
# --------------------------------------------------------------------------
class Scratch:
    _n = 0

    def __init__(self, tag="run"):
        import tempfile
        base = "/dev/shm" if os.path.isdir("/dev/shm") and \
            os.access("/dev/shm", os.W_OK) else None
        self.path = pathlib.Path(tempfile.mkdtemp(
            prefix=f"verif-{tag}-", dir=base))

    def __enter__(self):
        return self.path

    def __exit__(self, *a):
        import shutil
        shutil.rmtree(self.path, ignore_errors=True)


# --------------------------------------------------------------------------
# violations and known findings
# --------------------------------------------------------------------------
def make_violation(prop, rule, site, features=None, message="", op_index=None):
    return {"property": prop, "rule": rule, "site": site,
            "features": features or {}, "message": message,
            "op_index": op_index}


def signature(v):
    return (v["property"], v["rule"], v["site"])


def load_known_findings():
    if KNOWN_FINDINGS.exists():
        return json.loads(KNOWN_FINDINGS.read_text()).get("findings", [])
    return []


def match_known(v, findings):
    """Return the *open* finding matching violation `v`, else None.

    A finding matches iff property, rule and site are equal and every
    key of its "match" dict has the same value in the violation's features.
    "fixed" entries suppress nothing.
    """
    for f in findings:
        if f.get("status") != "open":
            continue
        if (f["property"], f["rule"], f["site"]) != signature(v):
            continue
        feats = v.get("features", {})
        if all(feats.get(k) == val for k, val in f.get("match", {}).items()):
            return f
    return None


# --------------------------------------------------------------------------
# fault plan: faults are part of an op, so they shrink and replay with it
# --------------------------------------------------------------------------
class InjectedFault(RuntimeError):
    pass


class InjectedMemoryError(MemoryError):
    pass


class InjectedOSError(OSError):
    pass


class InjectedInterrupt(KeyboardInterrupt):
    """KeyboardInterrupt subclass, so the executor can tell an injected
    interrupt from a real Ctrl-C."""


EXC_TYPES = {
    "RuntimeError": InjectedFault,
    "MemoryError": InjectedMemoryError,
    "KeyboardInterrupt": InjectedInterrupt,
    "ENOSPC": lambda msg: InjectedOSError(28, "No space left on device (injected)"),
    "EIO": lambda msg: InjectedOSError(5, "Input/output error (injected)"),
}

INJECTED = (InjectedFault, InjectedMemoryError, InjectedOSError,
            InjectedInterrupt)


class FaultPlan:
    """Per-op plan consulted by the seams.

    `arm(fault)` with fault = {"seam": name, "at": n, "exc": type[,
    "when": "before"|"after"]}; `hit(seam)` is called by a seam on every
    call: it counts, and raises at the n-th call of the armed seam.
    """

    def __init__(self):
        self.counts = collections.Counter()
        self.total = collections.Counter()
        self.fault = None
        self.fired = None
        self.phase = None
        self.fired_log = []
        self.apply_calls = 0
        self.apply_returned = 0

    def arm(self, fault):
        self.counts.clear()
        self.fault = fault
        self.fired = None

    def disarm(self):
        self.fault = None
        self.fired = None
        self.counts.clear()

    def set_phase(self, phase):
        self.phase = phase

    def hit(self, seam, when="before"):
        """Called by seams. Raises the armed exception when due."""
        if when == "before":
            self.counts[seam] += 1
            self.total[seam] += 1
        f = self.fault
        if (f is not None and self.fired is None and f["seam"] == seam
                and f.get("when", "before") == when
                and self.counts[seam] == f["at"]):
            self.fired = {"seam": seam, "at": f["at"], "exc": f["exc"],
                          "when": when, "phase": self.phase}
            self.fired_log.append(self.fired)
            raise EXC_TYPES[f["exc"]](f"injected {f['exc']} at {seam}#{f['at']}")


# --------------------------------------------------------------------------
# minimisation (ddmin over the op list, then engine-specific simplification)
# --------------------------------------------------------------------------
def ddmin(ops, still_fails, deadline):
    n = 2
    ops = list(ops)
    while len(ops) >= 2 and time.monotonic() < deadline:
        chunk = max(1, len(ops) // n)
        subsets = [ops[i:i + chunk] for i in range(0, len(ops), chunk)]
        reduced = False
        for i in range(len(subsets)):
            if time.monotonic() >= deadline:
                break
            complement = [o for j, s in enumerate(subsets) if j != i for o in s]
            if complement and still_fails(complement):
                ops = complement
                n = max(n - 1, 2)
                reduced = True
                break
        if not reduced:
            if n >= len(ops):
                break
            n = min(len(ops), n * 2)
    # final one-by-one pass
    i = 0
    while i < len(ops) and len(ops) > 1 and time.monotonic() < deadline:
        cand = ops[:i] + ops[i + 1:]
        if still_fails(cand):
            ops = cand
        else:
            i += 1
    return ops


def _fails_in_fresh_process(cand, sig):
    """Evaluate a candidate replay in a fresh interpreter (needed when the
    violation is about state accumulated in the process: an in-process
    evaluation would inherit the state of earlier candidates)."""
    import tempfile
    with tempfile.NamedTemporaryFile("w", suffix=".json", delete=False) as fd:
        json.dump(cand, fd, default=_json_default)
        path = fd.name
    try:
        ok, _ = replay_in_fresh_interpreter(path, sig)
    except Exception:
        ok = False
    finally:
        os.unlink(path)
    return ok


def minimise(engine, run, viol, budget_s=90):
    sig = signature(viol)
    deadline = time.monotonic() + budget_s
    tried = [0]
    if viol.get("needs_history"):
        # coarse minimisation in fresh interpreters: history first, then ops
        best = dict(run)
        hist = list(run.get("history") or [])

        def fails(h, ops):
            tried[0] += 1
            return _fails_in_fresh_process(dict(run, history=h, ops=ops), sig)

        if not fails(hist, run["ops"]):
            return dict(run, minimised_from_ops=len(run["ops"]),
                        minimise_executions=tried[0])
        while len(hist) > 1 and time.monotonic() < deadline:
            half = len(hist) // 2
            if fails(hist[half:], run["ops"]):
                hist = hist[half:]
            elif fails(hist[:half], run["ops"]):
                hist = hist[:half]
            else:
                break
        ops = list(run["ops"])
        while len(ops) > 1 and time.monotonic() < deadline:
            if fails(hist, ops[:-1]):
                ops = ops[:-1]
            else:
                break
        best.update(history=hist, ops=ops,
                    minimised_from_ops=len(run["ops"]),
                    minimise_executions=tried[0])
        return best

    def fails_with(ops):
        tried[0] += 1
        cand = dict(run, ops=ops)
        try:
            res = engine.execute(cand)
        except Exception:
            return False
        v = res.get("violation")
        return v is not None and signature(v) == sig

    ops = ddmin(run["ops"], fails_with, deadline)
    # per-op simplification offered by the engine
    simp = getattr(engine, "simplify_op", None)
    if simp is not None:
        changed = True
        while changed and time.monotonic() < deadline:
            changed = False
            for i, op in enumerate(ops):
                for cand_op in simp(op):
                    if time.monotonic() >= deadline:
                        break
                    cand = ops[:i] + [cand_op] + ops[i + 1:]
                    if fails_with(cand):
                        ops = cand
                        changed = True
                        break
    hist = run.get("history")
    if hist:
        def fails_hist(h):
            tried[0] += 1
            cand = dict(run, ops=ops, history=h)
            try:
                res = engine.execute(cand)
            except Exception:
                return False
            v = res.get("violation")
            return v is not None and signature(v) == sig
        if fails_hist([]):
            hist = []
        else:
            hist = ddmin(hist, fails_hist, deadline)
    out = dict(run, ops=ops)
    if run.get("history") is not None:
        out["history"] = hist
    out["minimised_from_ops"] = len(run["ops"])
    out["minimise_executions"] = tried[0]
    return out


# --------------------------------------------------------------------------
# worker side
# --------------------------------------------------------------------------
_ENGINE = None
_HISTORY = []     # runs executed earlier by this worker process


def _worker_init(engine_name):
    global _ENGINE
    from . import engines
    _ENGINE = engines.get(engine_name)


def _run_one(engine, prop, base_seed, tier, index):
    seed = derive_seed(prop, base_seed, index)
    rng = random.Random(seed)
    run = engine.generate(rng, tier, index)
    # what is executed is exactly what a replay file can hold
    run = json.loads(json.dumps(run, default=_json_default))
    run.update({"property": prop, "index": index, "seed": seed,
                "base_seed": base_seed, "tier": tier})
    faulthandler.dump_traceback_later(
        getattr(engine, "watchdog_s", RUN_WATCHDOG_S), exit=True)
    try:
        res = engine.execute(run)
    finally:
        faulthandler.cancel_dump_traceback_later()
    v = res.get("violation")
    if v is not None and v.get("needs_history"):
        # the violation is about state that earlier runs left in this
        # process: the replay file carries them
        run["history"] = [dict(h) for h in _HISTORY]
    elif v is not None and getattr(engine, "track_history", False):
        # kept aside: used only if the plain replay does not reproduce
        res["worker_history"] = [dict(h) for h in _HISTORY]
    if getattr(engine, "track_history", False):
        _HISTORY.append({k: run[k] for k in ("config", "ops", "property",
                                             "index")})
        del _HISTORY[:-40]
    res["run"] = run if res.get("violation") or res.get("keep_run") else None
    if os.environ.get("VERIF_DUMP_LOGS"):
        d = pathlib.Path(os.environ["VERIF_DUMP_LOGS"])
        d.mkdir(parents=True, exist_ok=True)
        (d / f"{prop}-{index}.json").write_text(json.dumps(
            {"pid": os.getpid(), "log": res.get("log")}, indent=1,
            sort_keys=True, default=_json_default))
    res["index"] = index
    res["ops_digest"] = digest(run["ops"])
    res["n_ops"] = len(run["ops"])
    if "sample" not in res:
        res["sample"] = None
    return res, run


def _worker_chunk(args):
    prop, base_seed, tier, indices, want_samples = args
    out = []
    for index in indices:
        try:
            res, run = _run_one(_ENGINE, prop, base_seed, tier, index)
            if index in want_samples:
                res["sample"] = {"index": index, "config": run["config"],
                                 "ops": run["ops"]}
            res.pop("keep_run", None)
            out.append(res)
        except BaseException as e:  # harness error in this run
            if isinstance(e, (SystemExit,)):
                raise
            out.append({"index": index, "harness_error":
                        "".join(traceback.format_exception(e))[-4000:]})
    return out


# --------------------------------------------------------------------------
# batch driver
# --------------------------------------------------------------------------
def run_batch(engine_name, prop, tier, base_seed, n_runs, budget_s, workers,
              chunk=4, progress=True):
    """Execute runs 0..n_runs-1 (stopping early when budget_s is used up)."""
    from . import engines
    engine = engines.get(engine_name)   # import in the parent, before forking
    chunk = getattr(engine, "chunk", chunk)
    t0 = time.monotonic()
    want_samples = {0, 1, 2}
    results = {}
    ctx = multiprocessing.get_context("fork")
    indices = list(range(n_runs))
    chunks = [indices[i:i + chunk] for i in range(0, n_runs, chunk)]
    skipped = 0
    if workers <= 1:
        _worker_init(engine_name)
        for ch in chunks:
            if time.monotonic() - t0 > budget_s:
                skipped += len(ch)
                continue
            for r in _worker_chunk((prop, base_seed, tier, ch, want_samples)):
                results[r["index"]] = r
    else:
        with cf.ProcessPoolExecutor(max_workers=workers, mp_context=ctx,
                                    initializer=_worker_init,
                                    initargs=(engine_name,)) as ex:
            pending = {}
            it = iter(chunks)
            exhausted = False

            def submit_next():
                nonlocal exhausted, skipped
                try:
                    ch = next(it)
                except StopIteration:
                    exhausted = True
                    return
                if time.monotonic() - t0 > budget_s:
                    skipped += len(ch)
                    for rest in it:
                        skipped += len(rest)
                    exhausted = True
                    return
                fut = ex.submit(_worker_chunk,
                                (prop, base_seed, tier, ch, want_samples))
                pending[fut] = ch

            for _ in range(workers * 2):
                if not exhausted:
                    submit_next()
            while pending:
                done, _ = cf.wait(
                    list(pending),
                    timeout=getattr(engine, "watchdog_s", RUN_WATCHDOG_S)
                    * (chunk + 1), return_when=cf.FIRST_COMPLETED)
                if not done:
                    raise HarnessError("worker pool stalled")
                for fut in done:
                    pending.pop(fut)
                    try:
                        rs = fut.result()
                    except Exception as e:
                        raise HarnessError(f"worker died: {e!r}")
                    for r in rs:
                        results[r["index"]] = r
                    if not exhausted:
                        submit_next()
    wall = time.monotonic() - t0
    ordered = [results[i] for i in sorted(results)]
    return engine, ordered, skipped, wall


def replay_in_fresh_interpreter(path, expect_sig, hashseed="0"):
    """Re-execute a replay file in a fresh interpreter; True iff the same
    (property, rule, site) violation is reported again."""
    env = dict(os.environ)
    env["PYTHONHASHSEED"] = str(hashseed)
    cmd = [sys.executable, "-B", "-m", "sim.main", "--replay", str(path),
           "--quiet"]
    p = subprocess.run(cmd, cwd=str(VERIF), env=env, capture_output=True,
                       text=True, timeout=900)
    want = "SIGNATURE " + "|".join(expect_sig)
    return (p.returncode == 1 and want in p.stdout), p


def cross_process(engine, run, res, rule, what="event log"):
    """Re-execute `run` in a fresh interpreter under another PYTHONHASHSEED
    and compare. Returns a violation or None. Used for the clauses
    "identical across processes / hash seeds" and, because a fresh
    interpreter has no history, for state that leaks between objects of one
    process (module-level caches)."""
    import tempfile
    child = dict(run, _child=True)
    child.pop("history", None)
    with tempfile.NamedTemporaryFile("w", suffix=".json",
                                     delete=False) as fd:
        json.dump(child, fd, default=_json_default)
        path = fd.name
    try:
        env = dict(os.environ, PYTHONHASHSEED="4242")
        p = subprocess.run(
            [sys.executable, "-B", "-m", "sim.main", "--exec-run", path],
            cwd=str(VERIF), env=env, capture_output=True, text=True,
            timeout=900)
    finally:
        os.unlink(path)
    line = [ln for ln in p.stdout.splitlines() if ln.startswith("RETS ")]
    if p.returncode != 0 or not line:
        raise HarnessError(
            f"cross-process child failed rc={p.returncode}: "
            f"{p.stdout[-800:]} {p.stderr[-800:]}")
    theirs = json.loads(line[0][5:])
    mine_rets = res.get("rets")
    if mine_rets is not None and theirs.get("rets") != mine_rets:
        k = next((i for i, (a, b) in enumerate(
            zip(theirs["rets"], mine_rets)) if a != b), -1)
        return make_violation(
            engine.prop, rule, "other-process", {"first_diff": k},
            f"returned values differ in a fresh interpreter with another "
            f"hash seed: {mine_rets} vs {theirs['rets']}")
    if theirs["log_digest"] != res["log_digest"]:
        if mine_rets is not None:
            raise HarnessError("cross-process log digest differs although "
                               "returned values agree")
        v = make_violation(
            engine.prop, rule, "other-process", {},
            f"the {what} of this run differs when it is executed in a fresh "
            f"interpreter (no earlier objects, another hash seed): results "
            f"depend on process history or environment")
        v["needs_history"] = True
        return v
    return None


def write_evidence(prop, tier, seed, level, coverage, wall, violations,
                   assumptions):
    EVIDENCE.mkdir(exist_ok=True)
    ev = {"property_id": prop, "tier": tier, "seed": int(seed),
          "level": level, "coverage": coverage,
          "assumptions": assumptions, "wall_s": round(wall, 2),
          "violations": int(violations)}
    path = EVIDENCE / f"{prop}.json"
    tmp = path.with_suffix(".json.tmp")
    tmp.write_text(json.dumps(ev, indent=1, sort_keys=True,
                              default=_json_default))
    os.replace(tmp, path)
    return path


def check(engine_name, prop, tier, base_seed, n_runs, budget_s, workers,
          level, assumptions, rule_text, components, minimise_budget=90):
    """Full check: batch, known findings, minimise, fresh replay, evidence.
    Returns the exit code."""
    t_start = time.monotonic()
    print(f"CHECK property={prop} tier={tier} VERIF_SEED={base_seed} "
          f"runs={n_runs} workers={workers} budget_s={budget_s}", flush=True)
    try:
        engine, results, skipped, wall = run_batch(
            engine_name, prop, tier, base_seed, n_runs, budget_s, workers)
    except HarnessError as e:
        print(f"HARNESS-ERROR property={prop} {e}", flush=True)
        return 2
    herr = [r for r in results if r.get("harness_error")]
    if herr:
        print(f"HARNESS-ERROR property={prop} run index={herr[0]['index']}\n"
              + herr[0]["harness_error"], flush=True)
        return 2

    findings = load_known_findings()
    probes = collections.Counter()
    faults = collections.Counter()
    states = set()
    digests = set()
    nontrivial = set()
    n_ops = 0
    sim_time = 0.0
    samples = []
    oracle_checks = 0
    unknown = {}   # signature -> (result)
    known_hit = {}  # finding id -> count
    for r in results:
        probes.update(r.get("probes", {}))
        faults.update(r.get("faults", {}))
        states.update(r.get("states", []))
        digests.add(r["ops_digest"])
        if r.get("nontrivial"):
            nontrivial.add(r["ops_digest"])
        n_ops += r.get("ops_executed", r["n_ops"])
        sim_time += r.get("sim_time", 0.0)
        oracle_checks += r.get("oracle_checks", 0)
        if r.get("sample") is not None and len(samples) < 3:
            samples.append(r["sample"])
        v = r.get("violation")
        if v is not None:
            f = match_known(v, findings)
            if f is not None:
                known_hit[f["id"]] = known_hit.get(f["id"], 0) + 1
            else:
                unknown.setdefault(signature(v), []).append(r)

    for f in findings:
        if f.get("status") == "open" and f["property"] == prop \
                and f["id"] in known_hit:
            print(f"KNOWN-FINDING: property={prop} {f['what']} "
                  f"[{f['id']}; hit in {known_hit[f['id']]} runs]", flush=True)

    exit_code = 0
    n_viol = 0
    REPLAYS.mkdir(exist_ok=True)
    for sig, cands in sorted(unknown.items())[:3]:
        reported = False
        last_fail = None
        for r in cands[:4]:
            run, viol = r["run"], r["violation"]
            attempts = [(run, viol)]
            if r.get("worker_history") and not viol.get("needs_history"):
                # state left behind by earlier runs of the same worker may
                # be what this run tripped over: second attempt with them
                v_h = dict(viol, needs_history=True)
                attempts.append((dict(run, history=r["worker_history"]),
                                 v_h))
            for run_a, viol_a in attempts:
                try:
                    small = minimise(engine, run_a, viol_a,
                                     budget_s=minimise_budget)
                except Exception as e:
                    print(f"HARNESS-ERROR property={prop} minimisation "
                          f"failed: {e!r}")
                    return 2
                if viol_a.get("needs_history"):
                    v2 = viol_a
                else:
                    res = engine.execute(small)
                    v2 = res.get("violation")
                    if v2 is None or signature(v2) != sig:
                        small, v2 = run_a, viol_a
                small = dict(small)
                small["violation"] = v2
                name = f"{prop}-{base_seed}-{run['index']}-{sig[1]}.json"
                path = REPLAYS / name
                # (no key sorting: the order of keyword arguments inside
                # an op can be part of what makes a run fail)
                path.write_text(json.dumps(small, indent=1,
                                           default=_json_default))
                ok, proc = replay_in_fresh_interpreter(path, sig)
                if ok:
                    reported = True
                    break
                last_fail = (run["index"], proc)
            if reported:
                break
        if not reported:
            idx, proc = last_fail
            print(f"HARNESS-ERROR property={prop} violation {sig} of run "
                  f"{idx} (and {len(cands) - 1} more runs) did not reproduce "
                  f"in a fresh interpreter (rc={proc.returncode})\n"
                  f"{proc.stdout[-2000:]}\n{proc.stderr[-2000:]}",
                  flush=True)
            return 2
        n_viol += 1
        exit_code = 1
        print(f"VIOLATION property={prop} replay={path}", flush=True)
        print(f"  rule={v2['rule']} site={v2['site']} "
              f"features={jdump(v2['features'])}", flush=True)
        print(f"  {v2['message']}", flush=True)
        print(f"  ops: {len(small['ops'])} (minimised from "
              f"{small.get('minimised_from_ops', len(run['ops']))})"
              f"{', with ' + str(len(small['history'])) + ' earlier runs of the worker' if small.get('history') else ''}"
              f", seed {run['seed']}, replay with: ./check --replay {path}",
              flush=True)
    if len(unknown) > 3:
        print(f"  ({len(unknown) - 3} further violation signatures not "
              f"minimised: {sorted(unknown)[3:]})", flush=True)

    total_wall = time.monotonic() - t_start
    n_eval = len(results)
    coverage = {
        "evaluations": n_eval,
        "distinct_nontrivial": len(nontrivial),
        "rule": rule_text,
        "samples": samples,
        "distinct_op_lists": len(digests),
        "ops_executed": n_ops,
        "oracle_checks": oracle_checks,
        "distinct_abstract_states": len(states),
        "probes": dict(sorted(probes.items())),
        "faults_fired": dict(sorted(faults.items())),
        "simulated_seconds_on_stub_clock": round(sim_time, 3),
        "runs_per_hour": int(n_eval / max(wall, 1e-9) * 3600),
        "runs_skipped_for_budget": skipped,
        "workers": workers,
        "known_findings_hit": known_hit,
        "components": components,
        "exhaustive": False,
    }
    extra = getattr(engine, "coverage_extra", None)
    if extra is not None:
        coverage.update(extra(results))
    if not os.environ.get("VERIF_NO_EVIDENCE"):
        write_evidence(prop, tier, base_seed, level, coverage, total_wall,
                       n_viol, assumptions)
    print(f"DONE property={prop} runs={n_eval} skipped={skipped} "
          f"distinct_nontrivial={len(nontrivial)} states={len(states)} "
          f"ops={n_ops} faults_fired={sum(faults.values())} "
          f"violations={n_viol} known={sum(known_hit.values())} "
          f"wall={total_wall:.1f}s", flush=True)
    return exit_code
