"""Synthetic curves with known ground truth and the recorded-file catalogue.

A curve is described by a small JSON config; `make_curve(cfg)` returns a
*fresh* Indentation every time (raw arrays are memoised per config and copied),
which is what "a freshly loaded copy of the same curve" means in the oracles.
"""
import functools
import json
import os
import pathlib

import numpy as np

REPO = pathlib.Path(os.environ.get("VERIF_REPO", "/repo"))
DATA = REPO / "tests" / "data"

RECORDED_SINGLE = [
    "fmt-jpk-fd_spot3-0192.jpk-force",
    "fmt-jpk-fd_single_tilted-baseline-drift-mitotic_2021-01-29.jpk-force",
    "fmt-jpk-fd_single_tilted-baseline-shift-adyp_2023-06-26.jpk-force",
    "fmt-jpk-fd_single_bad_2017-01-16_1.jpk-force",
    "fmt-jpk-fd_single_bad_GWAT_2017-10-17.jpk-force",
    "fmt-jpk-fd_single_bad_bead10_2017-04-27.jpk-force",
]
RECORDED_MAPS = [
    "fmt-jpk-fd_map2x2_extracted.jpk-force-map",
    "fmt-jpk-fd_map1d_2016-11-07.jpk-force-map",
]

SYN_MODELS = ["hertz_para", "hertz_cone", "hertz_pyr3s",
              "sneddon_spher_approx"]


def _model_force(model_key, tp, E, cp, baseline):
    from nanite import model
    md = model.models_available[model_key]
    params = md.get_parameter_defaults()
    params["E"].value = E
    params["contact_point"].value = cp
    params["baseline"].value = baseline
    # model_func wants approach-ordered (descending) abscissa; the wrapper
    # `model` is direction agnostic
    return md.model(params, tp)


@functools.lru_cache(maxsize=256)
def _synthetic_arrays(key):
    cfg = json.loads(key)
    n = int(cfg.get("n", 700))
    nr = int(cfg.get("n_retract", n))
    model_key = cfg.get("model", "hertz_para")
    E = float(cfg.get("E", 3000.0))
    cp = float(cfg.get("cp", 0.0))
    baseline = float(cfg.get("baseline", 0.0))
    noise = float(cfg.get("noise", 0.0))
    tilt = float(cfg.get("tilt", 0.0))
    k = float(cfg.get("k", 0.05))
    zhi = float(cfg.get("z_hi", 3e-6))
    zlo = float(cfg.get("z_lo", -1.5e-6))
    off = float(cfg.get("z_offset", 2.0e-5))
    tp_a = np.linspace(zhi, zlo, n)
    tp_r = np.linspace(zlo, zhi, nr + 1)[1:]
    tp = np.concatenate([tp_a, tp_r])
    force = _model_force(model_key, tp, E, cp, baseline)
    if tilt:
        force = force + tilt * (tp - zhi)
    if noise:
        rng = np.random.Generator(np.random.PCG64(int(cfg.get("seed", 1))))
        force = force + rng.normal(0, noise * np.max(np.abs(force)),
                                   force.size)
    height = tp + off - force / k
    seg = np.concatenate([np.zeros(n, np.uint8), np.ones(nr, np.uint8)])
    t = np.arange(tp.size) * float(cfg.get("dt", 1e-3))
    cols = {"force": force, "height (measured)": height, "time": t,
            "segment": seg}
    if cfg.get("innate_tip", False):
        cols["tip position"] = tp + off
        if cfg.get("tip_noise"):
            # a recorded tip position is not exactly monotonic
            rng2 = np.random.Generator(np.random.PCG64(
                int(cfg.get("seed", 1)) + 7919))
            cols["tip position"] = cols["tip position"] + rng2.normal(
                0, float(cfg["tip_noise"]), tp.size)
    for a in cols.values():
        a.setflags(write=False)
    return cols, k


@functools.lru_cache(maxsize=32)
def _recorded_arrays(fname, enum):
    from nanite import IndentationGroup
    grp = IndentationGroup(DATA / fname)
    idnt = grp[enum]
    cols = {}
    for c in idnt.columns_innate:
        a = np.array(idnt[c], copy=True)
        a.setflags(write=False)
        cols[c] = a
    md = dict(idnt.metadata)
    return cols, md


def make_curve(cfg):
    """Return a fresh Indentation for a curve config."""
    from nanite.indent import Indentation
    if cfg["kind"] == "synthetic":
        key = json.dumps({k: v for k, v in cfg.items() if k != "kind"},
                         sort_keys=True)
        cols, k = _synthetic_arrays(key)
        data = {c: np.array(a, copy=True) for c, a in cols.items()}
        md = {"path": cfg.get("path", "/sim/synthetic.h5"),
              "enum": int(cfg.get("enum", 0)),
              "spring constant": k,
              "imaging mode": "force-distance",
              "point count": int(data["force"].size)}
        return Indentation(data, md)
    elif cfg["kind"] == "recorded":
        cols, md = _recorded_arrays(cfg["file"], int(cfg.get("enum", 0)))
        data = {c: np.array(a, copy=True) for c, a in cols.items()}
        return Indentation(data, dict(md))
    raise ValueError(cfg)


def raw_digest(cfg):
    """Digest of the raw columns a config stands for."""
    from .core import digest_array
    if cfg["kind"] == "synthetic":
        key = json.dumps({k: v for k, v in cfg.items() if k != "kind"},
                         sort_keys=True)
        cols, _ = _synthetic_arrays(key)
    else:
        cols, _ = _recorded_arrays(cfg["file"], int(cfg.get("enum", 0)))
    return {c: digest_array(a) for c, a in sorted(cols.items())}


def gen_curve_cfg(rng, allow_recorded=True, min_points=None, big=False):
    """Seeded choice of a curve family member."""
    if allow_recorded and rng.random() < 0.2:
        return {"kind": "recorded", "file": rng.choice(RECORDED_SINGLE[:4]),
                "enum": 0}
    n = rng.choice([60, 120, 250, 400, 650, 900] if not big
                   else [650, 800, 1000, 1200])
    if min_points:
        n = max(n, min_points)
    cfg = {"kind": "synthetic",
           "model": rng.choice(SYN_MODELS),
           "n": n,
           "E": rng.choice([300.0, 1500.0, 3000.0, 12000.0, 80000.0]),
           "cp": rng.choice([0.0, 2e-7, -3e-7]),
           "baseline": rng.choice([0.0, 1e-10, -2e-10]),
           "noise": rng.choice([0.0, 0.0, 0.001, 0.01]),
           "seed": rng.randrange(1, 1000)}
    if rng.random() < 0.25:
        cfg["tilt"] = rng.choice([2e-5, -1e-5])
    if rng.random() < 0.15:
        cfg["n_retract"] = max(30, n // 2)
    if rng.random() < 0.2:
        # the file brings its own (recorded) tip position column
        cfg["innate_tip"] = True
    return cfg


def write_afm_hdf5(path, cfgs, grid=None):
    """Write curves as one afmformats-HDF5 file using afmformats' exporter.

    `grid`: optional list of (x, y, ix, iy) per curve -> makes the file a
    quantitative map.
    """
    import h5py
    path = pathlib.Path(path)
    with h5py.File(path, "w") as h5:
        for ii, cfg in enumerate(cfgs):
            c = dict(cfg)
            c["path"] = str(path)
            c["enum"] = ii
            idnt = make_curve(c)
            md = dict(idnt.metadata)
            md["enum"] = ii
            if grid is not None:
                g = grid[ii]
                md.update(g)
            idnt._export_hdf5(h5group=h5, metadata_dict=md)
    return path
