"""container-sim: rating containers round-trip and only ever grow (C16).

Histories of saves (new curve, same curve again, same curve with a different
fit, several files / enumerations / containers) against a reference map of
stored ratings; for flagged saves a fault is injected at EVERY write call of
that save, before the call takes effect and after it (lost acknowledgement),
each on its own copy of the container: fail, check, retry, check.
DESIGN.md 4.6.
"""
import collections
import copy
import pathlib
import shutil
import warnings

import numpy as np

from . import core, curves, seams
from .core import digest_array, fhex, make_violation
from .engine_curve import COMPONENTS, _caught, enc, enc_params
from .seams import PLAN, CLOCK

PIPE = ["compute_tip_position", "correct_force_offset", "correct_tip_offset"]
VARIANTS = [
    {"model_key": "hertz_para"},
    {"model_key": "hertz_cone"},
    {"model_key": "hertz_para", "weight_cp": 0},
    {"model_key": "hertz_para", "range_x": [-4e-7, 1e-6]},
    {"model_key": "sneddon_spher_approx", "gcf_k": 0.5},
    {"model_key": "hertz_para", "optimal_fit_num_samples": 50},   # don't-care
    {"model_key": "hertz_para", "segment": 1},
    {"model_key": "hertz_pyr3s", "method": "nelder",
     "method_kws": {"max_nfev": 60}},
    {"model_key": "hertz_para", "optimal_fit_edelta": True,
     "optimal_fit_num_samples": 7},
    # numpy scalars in a range (e.g. taken from an array)
    {"model_key": "hertz_para", "range_x": [-5e-7, 1e-6],
     "__np__": ["range_x"]},
    {"model_key": "hertz_cone", "range_type": "relative cp",
     "range_x": [-1e-6, 3e-7]},
    # twins of variant 0: other settings, bit-identical fit
    {"model_key": "hertz_para", "optimal_fit_num_samples": 33},
    {"model_key": "hertz_para", "range_x": [-1.0, 1.0]},
    {"model_key": "hertz_para", "method_kws": {"max_nfev": 400}},
    # open-ended interval
    {"model_key": "hertz_para", "range_x": [-float("inf"), 1e-6]},
    {"model_key": "hertz_cone", "range_x": [-5e-7, float("inf")]},
    # no data in the interval: an unsuccessful fit (stored without fitted
    # parameters, chi_sqr, xmin, xmax)
    {"model_key": "hertz_para", "range_x": [1.9e-5, 2.2e-5]},
]
TWINS_OF_0 = [5, 11, 12, 13]
PIPES = [
    (PIPE, {}),
    (PIPE, {"correct_tip_offset": {"method": "gradient_zero_crossing"}}),
    ([], {}),
    (["compute_tip_position"], {}),
    (PIPE + ["correct_force_slope"],
     {"correct_force_slope": {"region": "baseline", "strategy": "shift"}}),
    # segment discovery rewrites the segment column
    (PIPE + ["correct_split_approach_retract"], {}),
    (["compute_tip_position", "correct_split_approach_retract",
      "correct_tip_offset", "smooth_height"], {}),
    # options kept for a step that is not (any more) in the pipeline
    (PIPE, {"correct_tip_offset": {"method": "fit_constant_line"},
            "correct_force_slope": {"region": "approach",
                                    "strategy": "drift"}}),
]
NAMES = ["me", "Ünï Cödé", "a b", ""]
COMMENTS = ["", "good", "näive – dash", "two\nlines", "x" * 200]
USER_ATTRS = {"user comment", "user name", "user rate", "user time",
              "user time str", "nanite version", "h5py version"}
COLS = ["force", "tip position", "segment", "fit", "fit residuals",
        "fit range"]


def enc_attr(v):
    if isinstance(v, bytes):
        return {"b": v.decode("utf-8", "replace")}
    if isinstance(v, np.ndarray):
        return {"nd": digest_array(v)}
    if isinstance(v, (np.floating, float)):
        return {"f": fhex(v)}
    if isinstance(v, (np.integer, int, np.bool_, bool)):
        return {"i": int(v)}
    return {"s": str(v)}


def dump(path):
    """Full logical dump of a container (datasets by digest, attributes)."""
    import h5py
    out = {}
    path = pathlib.Path(path)
    if not path.exists():
        return out
    with h5py.File(path, "r") as h5:
        def visit(name, obj):
            d = {"attrs": {k: enc_attr(v) for k, v in obj.attrs.items()}}
            if isinstance(obj, h5py.Dataset):
                d["data"] = digest_array(obj[...])
            out[name] = d
        h5.visititems(visit)
    return out


def dump_signature(d):
    """Run-independent signature of a container dump (file hashes and
    scratch paths differ between runs: HDF5 files carry time stamps)."""
    groups = collections.defaultdict(list)
    for name, obj in d.items():
        parts = name.split("/")
        if parts[0] != "analysis" or len(parts) < 2:
            continue
        g = groups[parts[1]]
        if len(parts) == 2:
            g.append(("attrs", sorted(
                (k, str(v)) for k, v in obj["attrs"].items()
                if k not in ("data hash", "nanite version",
                             "h5py version")
                # lmfit's JSON dump orders its symbol table by set
                # iteration (hash-seed dependent text, same values)
                and not k.startswith("fit params"))))
        else:
            g.append((parts[2], obj.get("data")))
    return sorted(core.digest(sorted(g, key=str)) for g in groups.values())


def norm_setting(k, v):
    """Type-normalised value of a fit property for K1 (numpy vs Python
    scalars, tuple vs list)."""
    import lmfit
    if isinstance(v, lmfit.Parameters):
        return {"params": enc_params(v)}
    if isinstance(v, np.ndarray):
        return {"nd": digest_array(v)}
    if isinstance(v, (bool, np.bool_)):
        return bool(v)
    if isinstance(v, (int, np.integer)):
        return float(v) if k in ("weight_cp", "gcf_k") else int(v)
    if isinstance(v, (float, np.floating)):
        return {"f": fhex(v)}
    if isinstance(v, (list, tuple)):
        if k == "range_x":
            return [fhex(float(x)) for x in v]
        return [norm_setting(None, x) for x in v]
    if isinstance(v, dict):
        return {str(a): norm_setting(None, b) for a, b in sorted(v.items())}
    return v


def norm_fp(fp):
    out = {}
    for k, v in fp.items():
        nv = norm_setting(k, v)
        if k in ("weight_cp", "gcf_k") and isinstance(nv, (int, float, bool)):
            nv = {"f": fhex(float(nv))}
        out[str(k)] = nv
    return out


class World:
    def __init__(self, config, scratch):
        self.config = config
        self.scratch = scratch
        self.files = []
        self.fitted = {}
        self.containers = [scratch / f"ratings_{k}.h5"
                           for k in range(config.get("containers", 1))]
        # reference: per container OrderedDict key -> entry
        self.ref = [collections.OrderedDict() for _ in self.containers]
        for n, fc in enumerate(config["files"]):
            if fc["kind"] == "synthetic_h5":
                p = scratch / f"meas_{n}.h5"
                curves.write_afm_hdf5(p, fc["curves"])
            elif fc["kind"] == "copy":
                # the same measurement (byte for byte) at another location
                src = self.files[fc["of"] % len(self.files)]
                d = scratch / f"moved_{n}"
                d.mkdir(exist_ok=True)
                p = d / src.name
                shutil.copy(src, p)
            else:
                p = scratch / fc["file"]
                shutil.copy(curves.DATA / fc["file"], p)
            self.files.append(p)
        self._groups = {}

    def group(self, fi):
        from nanite import IndentationGroup
        if fi not in self._groups:
            with warnings.catch_warnings():
                warnings.simplefilter("ignore")
                self._groups[fi] = IndentationGroup(self.files[fi])
        return self._groups[fi]

    def curve(self, ci, vi):
        """Fitted original for curve ci with fit variant vi (memoised; a new
        object loaded from the measurement file)."""
        from nanite import IndentationGroup
        key = (ci, vi)
        if key not in self.fitted:
            cc = self.config["curves"][ci]
            with warnings.catch_warnings():
                warnings.simplefilter("ignore")
                grp = IndentationGroup(self.files[cc["file"]])
                idnt = grp[cc["enum"] % len(grp)]
                steps, opts = PIPES[cc.get("pipe", 0)]
                try:
                    idnt.apply_preprocessing(copy.deepcopy(steps),
                                             copy.deepcopy(opts))
                except _caught():
                    # e.g. height smoothing that does not converge on this
                    # curve: no fitted curve to store
                    self.fitted[key] = None
                    return None
                var = cc["variants"][vi % len(cc["variants"])]
                kw = copy.deepcopy(VARIANTS[var])
                for nk in kw.pop("__np__", []):
                    kw[nk] = [np.float64(x) for x in kw[nk]]
                try:
                    idnt.fit_model(**kw)
                except _caught():
                    # keep an unfitted-but-consistent object out of the run
                    idnt = None
            self.fitted[key] = idnt
        return self.fitted[key]

    def key(self, ci):
        from nanite.rate.io import hash_file
        cc = self.config["curves"][ci]
        grp = self.group(cc["file"])
        enum = grp[cc["enum"] % len(grp)].enum
        return (hash_file(self.files[cc["file"]]), int(enum))


def clearly_different(a, b):
    """fit columns differ by more than 0.1 % of the amplitude somewhere."""
    fa, fb = np.asarray(a["fit"]), np.asarray(b["fit"])
    if fa.shape != fb.shape:
        return True
    nan = np.isnan(fa) != np.isnan(fb)
    if np.any(nan):
        return True
    amp = np.nanmax(np.abs(fb)) if np.any(~np.isnan(fb)) else 0.0
    if amp == 0:
        return False
    d = np.nanmax(np.abs(fa - fb)) if np.any(~np.isnan(fa)) else 0.0
    return bool(d > 1e-3 * amp)


def same_fit(a, b):
    fa, fb = np.asarray(a["fit"]), np.asarray(b["fit"])
    return fa.shape == fb.shape and digest_array(fa) == digest_array(fb)


class ContainerEngine:
    prop = "C16"
    watchdog_s = 2400      # a thorough history enumerates every save
    chunk = 1
    components = {
        "real": COMPONENTS["real"] + ["h5py on real files in a run-private "
                                      "scratch directory (/dev/shm)"],
        "stubbed": ["nanite.rate.io.time -> simulated clock",
                    "h5py.Group.create_dataset/create_group/require_group, "
                    "AttributeManager.__setitem__, File.__init__ wrapped: "
                    "count calls, raise OSError(ENOSPC/EIO) before or after "
                    "the call takes effect while a save is in progress",
                    "the Tk rating GUI is not run; its persistence logic is "
                    "save_hdf5/hdf5_rated, which are driven directly"],
    }
    assumptions = [
        "a failure is one the save observes (exception at a write call); "
        "process death inside an HDF5 write is not modelled (HDF5 has no "
        "journal)",
        "'clearly different fit' = fit columns differ by more than 0.1 % of "
        "the amplitude somewhere; bit-identical fits must be accepted; in "
        "between either answer is accepted",
        "settings are compared type-normalised (numpy vs Python scalars, "
        "tuple vs list), columns and rating features bit for bit",
        "quick tier enumerates the fault positions of one save per history, "
        "thorough tier of every save; other saves may carry one sampled "
        "fault on the real container",
    ]
    rule_text = (
        "seeded histories of 3-9 saves/reopens over 2-6 fitted curves from "
        "1-3 measurement files (synthetic afmformats-HDF5 single/multi curve "
        "files, recorded JPK curves and maps), 2-3 fit variants each, 1-2 "
        "containers, simulated clock; reference map (file hash, enum) -> "
        "entry; K1 round trip, K2 growth (h5py dump), K3 refusal, K4 failed "
        "save; for flagged saves a fault at every write call x {before, "
        "after} on a container copy, then retry. distinct = op-list digest; "
        "non-trivial = at least two saves into one container")

    # ---------------------------------------------------------------- gen
    def generate(self, rng, tier, index):
        nfiles = rng.choice([1, 2, 2, 3])
        files = []
        for _ in range(nfiles):
            r = rng.random()
            if r < 0.7:
                k = rng.choice([1, 1, 2, 3])
                cfgs = []
                for _ in range(k):
                    c = curves.gen_curve_cfg(rng, allow_recorded=False)
                    c["n"] = rng.choice([60, 100, 160, 650])
                    c.pop("n_retract", None)
                    if rng.random() < 0.3:
                        c["innate_tip"] = True
                    cfgs.append(c)
                files.append({"kind": "synthetic_h5", "curves": cfgs})
            elif r < 0.9:
                files.append({"kind": "recorded", "file": rng.choice(
                    ["fmt-jpk-fd_spot3-0192.jpk-force",
                     "fmt-jpk-fd_single_bad_2017-01-16_1.jpk-force"])})
            else:
                files.append({"kind": "recorded", "file":
                              "fmt-jpk-fd_map2x2_extracted.jpk-force-map"})
        if rng.random() < 0.3:
            files.append({"kind": "copy", "of": rng.randrange(nfiles)})
            nfiles += 1
        ncurves = rng.randint(2, 5)
        cvs = []
        for _ in range(ncurves):
            nv = rng.choice([1, 2, 2, 3])
            var = rng.sample(range(len(VARIANTS)), nv)
            if rng.random() < 0.5:
                # settings that differ but give the very same fit
                var = [0, rng.choice(TWINS_OF_0)] + var[:1]
            cvs.append({"file": rng.randrange(nfiles),
                        "enum": rng.randrange(4),
                        "pipe": rng.choice([0, 0, 0, 1, 2, 3, 4, 5, 5, 6, 7,
                                            7]),
                        "variants": var})
        ncont = rng.choice([1, 1, 2])
        nops = rng.choice([3, 4, 5, 6] if tier == "quick"
                          else [4, 6, 8, 9])
        ops = []
        last_user = {}
        sampled_faults = rng.random() < 0.5
        while len(ops) < nops:
            if ops and rng.random() < 0.15:
                ops.append({"op": "reopen",
                            "container": rng.randrange(ncont)})
                continue
            op = {"op": "save", "curve": rng.randrange(ncurves),
                  "variant": rng.randrange(3),
                  "container": rng.randrange(ncont),
                  "user": {"rate": rng.choice(
                      [rng.randint(-1, 10), rng.randint(-1, 10),
                       rng.choice([7.5, 0.5, 9.25, 2.0])]),
                           "name": rng.choice(NAMES),
                           "comment": rng.choice(COMMENTS)},
                  "dt": rng.choice([0.5, 3.0, 60.0, -5.0])}
            lk = (op["container"], op["curve"])
            if lk in last_user:
                # same curve again: every subset of the user fields changes
                # (a re-save may differ in the name only, the rating only..)
                u = dict(last_user[lk])
                for fld in ("rate", "name", "comment"):
                    if rng.random() < 0.5:
                        u[fld] = op["user"][fld]
                op["user"] = u
                if rng.random() < 0.5:
                    op["variant"] = last_user[lk].get("_variant",
                                                      op["variant"])
            last_user[lk] = dict(op["user"], _variant=op["variant"])
            op["user"] = {k: v for k, v in op["user"].items()
                          if not k.startswith("_")}
            if rng.random() < 0.45 and len(ops) < nops - 1 \
                    and "fault" not in op:
                # directly afterwards the same curve and fit again; which
                # user fields differ rotates with the run index so that
                # every batch meets every kind of re-save
                kinds = ["name", "rate_float", "comment", "rate", "none",
                         "all", "rate_float", "name"]
                kind = kinds[(index + len(ops)) % len(kinds)]
                ops.append(op)
                op2 = copy.deepcopy(op)
                u = op2["user"]
                if kind in ("name", "all"):
                    u["name"] = rng.choice([n for n in NAMES
                                            if n != u["name"]])
                if kind in ("comment", "all"):
                    c_ = rng.choice([c for c in COMMENTS
                                     if c != u["comment"]])
                    # every other time the remark is taken back (emptied)
                    u["comment"] = "" if u["comment"] and \
                        (index // 8) % 2 == 0 else c_
                if kind in ("rate", "all"):
                    u["rate"] = (int(u["rate"]) + 3) % 11
                if kind == "rate_float":
                    op["user"]["rate"] = rng.randint(0, 10)
                    u["rate"] = rng.choice([7.5, 0.5, 9.25])
                op2["dt"] = 2.0
                last_user[lk] = dict(u, _variant=op2["variant"])
                op = op2
            if rng.random() < 0.2:
                op["user"]["_version"] = rng.choice(["1.7.8", "0.0.sim"])
            if sampled_faults and rng.random() < 0.3:
                op["fault"] = {"seam": "h5write", "at": rng.randint(1, 47),
                               "exc": rng.choice(["ENOSPC", "EIO",
                                                  "KeyboardInterrupt"]),
                               "when": rng.choice(["before", "after"])}
                if rng.random() < 0.6:
                    op["retry"] = True
            ops.append(op)
        if ncont == 2 and rng.random() < 0.6:
            # the same measurement with another fit in the other container
            base = [o for o in ops if o["op"] == "save"
                    and "fault" not in o]
            if base:
                o2 = copy.deepcopy(rng.choice(base))
                o2["container"] = 1 - o2["container"] % 2
                o2["variant"] = o2["variant"] + 1
                o2.pop("enum_faults", None)
                ops.append(o2)
        directed = index % 3 == 0
        if directed:
            # two curves of one measurement file into one container; the
            # save of the second one is the enumerated one (the raw data
            # set of the file is shared by both entries)
            if files[0]["kind"] != "synthetic_h5" or \
                    len(files[0]["curves"]) < 2:
                cfgs = []
                for _ in range(2):
                    c = curves.gen_curve_cfg(rng, allow_recorded=False)
                    c["n"] = rng.choice([60, 100, 160])
                    c.pop("n_retract", None)
                    cfgs.append(c)
                files[0] = {"kind": "synthetic_h5", "curves": cfgs}
            while len(cvs) < 2:
                cvs.append(copy.deepcopy(cvs[0]))
            for j_ in (0, 1):
                cvs[j_]["file"] = 0
                cvs[j_]["enum"] = j_
                cvs[j_]["pipe"] = 0
            head = []
            for j_ in (0, 1):
                head.append({"op": "save", "curve": j_, "variant": 0,
                             "container": 0, "dt": 1.0,
                             "user": {"rate": rng.randint(0, 10),
                                      "name": rng.choice(NAMES),
                                      "comment": rng.choice(COMMENTS)}})
            head[1]["enum_faults"] = True
            ops[0:0] = head
        saves = [i for i, o in enumerate(ops) if o["op"] == "save"
                 and "fault" not in o]
        if saves and not (directed and tier == "quick"):
            if tier == "quick":
                # prefer a save that adds a *further* curve of a measurement
                # file which already has an entry in that container (shared
                # raw data set), every other run
                def fkey(o):
                    cv = cvs[o["curve"] % len(cvs)]
                    fi = cv["file"] % len(files)
                    while files[fi]["kind"] == "copy":
                        fi = files[fi]["of"] % len(files)
                    k_ = len(files[fi].get("curves", [1])) or 1
                    return (o["container"] % ncont, fi), cv["enum"] % k_
                pref = []
                for i_ in saves:
                    fk, ek = fkey(ops[i_])
                    if any(fkey(ops[j_])[0] == fk and fkey(ops[j_])[1] != ek
                           for j_ in saves if j_ < i_):
                        pref.append(i_)
                pick = rng.choice(pref) if pref and index % 2 == 0 \
                    else rng.choice(saves)
                ops[pick]["enum_faults"] = True
            else:
                for i in saves:
                    ops[i]["enum_faults"] = True
        return {"config": {"files": files, "curves": cvs,
                           "containers": ncont}, "ops": ops}

    # ------------------------------------------------------------ execute
    def execute(self, run):
        seams.install_curve_seams()
        seams.install_lmfit_determinism()
        seams.install_h5_seams()
        import nanite.rate.io as rio
        rio.hash_file.cache_clear()
        CLOCK.now = 1_700_000_000.0
        CLOCK.elapsed = 0.0
        with core.Scratch("c16") as scratch:
            self.w = World(run["config"], scratch)
            try:
                return self._execute(run)
            finally:
                rio.hash_file.cache_clear()
                self.w = None

    def _execute(self, run):
        w = self.w
        log = []
        self.probes = probes = collections.Counter()
        self.faults = faults = collections.Counter()
        self.enum_positions = 0
        self.failed_keys = {}
        states = set()
        violation = None
        executed = 0
        self.oracle_checks = 0
        nsaves = collections.Counter()
        for i, op in enumerate(run["ops"]):
            k = op.get("container", 0) % len(w.containers)
            if op["op"] == "reopen":
                violation = self.check_container(w.containers[k], w.ref[k],
                                                 i, {"op": "reopen"})
                executed += 1
                if violation:
                    break
                continue
            ci = op["curve"] % len(w.config["curves"])
            orig = w.curve(ci, op["variant"])
            if orig is None:
                continue
            CLOCK.advance(op.get("dt", 1.0))
            nsaves[k] += 1
            if op.get("enum_faults"):
                violation = self.enumerate_faults(k, ci, op, i)
                if violation:
                    break
            violation = self.save(w.containers[k], w.ref[k], ci, op, i,
                                  fault=op.get("fault"))
            executed += 1
            if violation:
                break
            if op.get("fault") and op.get("retry"):
                violation = self.save(w.containers[k], w.ref[k], ci, op, i,
                                      fault=None, retry=True)
                executed += 1
                if violation:
                    break
            states.add(core.digest([
                len(w.ref[k]), getattr(self, "last_kind", None),
                bool(op.get("fault")), bool(op.get("retry")),
                sorted(w.config["curves"][e["ci"]].get("pipe", 0)
                       for e in w.ref[k].values()),
                len(w.containers)]))
            log.append({"i": i, "op": "save",
                        "dump": dump_signature(dump(w.containers[k]))})
        if violation is None and len(w.containers) > 1:
            violation = self.check_cross(len(run["ops"]))
        if violation is None and len(w.containers) > 1:
            violation = self.check_folder(len(run["ops"]))
        probes["fault positions enumerated"] = self.enum_positions
        return {"violation": violation, "log_digest": core.digest(log),
                "log": log, "probes": dict(probes), "faults": dict(faults),
                "states": sorted(states),
                "nontrivial": max(nsaves.values(), default=0) >= 2,
                "oracle_checks": self.oracle_checks,
                "ops_executed": executed, "sim_time": CLOCK.elapsed}

    # ----------------------------------------------------------- one save
    def do_save(self, path, orig, user, fault):
        import nanite.rate.io as rio
        PLAN.disarm()
        if fault:
            PLAN.arm(fault)
        PLAN.set_phase("save")
        n0 = PLAN.total["h5write"]
        out = {"ok": True}
        ver0 = rio.nanite_version
        if user.get("_version"):
            # this save is done by another release of the library
            rio.nanite_version = user["_version"]
        try:
            with warnings.catch_warnings():
                warnings.simplefilter("ignore")
                rio.save_hdf5(path, orig, user["rate"], user["name"],
                              user["comment"])
        except core.INJECTED as e:
            out = {"ok": False, "exc": type(e).__name__, "injected": True}
        except _caught() as e:
            out = {"ok": False, "exc": type(e).__name__, "msg": str(e)[:150]}
        finally:
            rio.nanite_version = ver0
            out["writes"] = PLAN.total["h5write"] - n0
            if PLAN.fired:
                out["fired"] = dict(PLAN.fired)
            PLAN.set_phase(None)
            PLAN.disarm()
        return out

    def save(self, path, ref, ci, op, i, fault=None, retry=False):
        """Perform a save on `path`, update the reference `ref`, and check
        K1-K4. Returns a violation or None."""
        w = self.w
        orig = w.curve(ci, op["variant"])
        key = w.key(ci)
        user = op["user"]
        failed_before = key in self.failed_keys.setdefault(id(ref), set())
        feats = {"op": "save", "retry": retry,
                 "fault_at": (fault or {}).get("at"),
                 "fault_when": (fault or {}).get("when"),
                 "after_failed_save": failed_before}
        before = dump(path)
        ent = ref.get(key)
        if ent is None:
            kind = "new"
        else:
            stored = w.curve(ent["ci"], ent["variant"])
            if same_fit(orig, stored):
                kind = "resave"
            elif clearly_different(orig, stored):
                kind = "different"
            else:
                kind = "similar"
        feats["kind"] = kind
        self.last_kind = kind
        out = self.do_save(path, orig, user, fault)
        if out.get("fired"):
            f = out["fired"]
            self.faults[f"h5write:{f['exc']}:{f['when']}"] += 1
        self.probes[f"save:{kind}"] += 1
        after = dump(path)
        self.oracle_checks += 1
        if out["ok"]:
            if kind == "different":
                return make_violation(
                    self.prop, "K3", "accepted-different-fit", feats,
                    "a clearly different fit for an already stored curve "
                    "was accepted (its rating now belongs to another fit)",
                    i)
            if kind == "new":
                ref[key] = {"ci": ci, "variant": op["variant"],
                            "user": dict(user), "state": "stored"}
            else:
                ent["user"] = dict(user)
            v = self.check_growth(before, after, key, kind, feats, i)
            if v:
                return v
        elif not out.get("injected"):
            if kind in ("different", "similar"):
                if out["exc"] != "ValueError":
                    return make_violation(
                        self.prop, "K3", f"refusal:{out['exc']}", feats,
                        f"different fit refused with {out['exc']}: "
                        f"{out.get('msg')}", i)
                if after != before:
                    return make_violation(
                        self.prop, "K3", "refusal-changed-file", feats,
                        "a refused save changed the container", i)
                self.probes["different fit refused, file unchanged"] += 1
            else:
                return make_violation(
                    self.prop, "K4" if failed_before else "K1",
                    f"save-raises:{out['exc']}", feats,
                    f"save ({kind}) raised {out['exc']}: {out.get('msg')} "
                    f"without an injected fault", i)
        else:
            # failed save: the entry becomes uncertain until read back
            self.probes["save failed by injected fault"] += 1
            self.failed_keys[id(ref)].add(key)
            if kind == "new":
                ref[key] = {"ci": ci, "variant": op["variant"],
                            "user": dict(user), "state": "maybe"}
            elif kind in ("resave", "similar"):
                ent["state"] = "maybe"
                ent["user_new"] = dict(user)
            elif kind == "different" and after != before:
                return make_violation(
                    self.prop, "K3", "refusal-changed-file", feats,
                    "a failed save of a different fit changed the "
                    "container", i)
            v = self.check_growth(before, after, key, "failed-" + kind,
                                  feats, i)
            if v:
                return v
        return self.check_container(path, ref, i, feats)

    def check_growth(self, before, after, key, kind, feats, i):
        """K2: objects of other entries are untouched; a re-save only
        changes the user fields."""
        idd = f"analysis/{key[0]}_{key[1]}"
        own_data = f"data/{key[0]}"
        for name in before:
            own = name == idd or name.startswith(idd + "/")
            if own and kind in ("new", "failed-new"):
                continue
            if name not in after:
                if name in ("data", "analysis"):
                    pass
                return make_violation(
                    self.prop, "K2", "object-removed", feats,
                    f"{name} disappeared from the container", i)
            b, a = before[name], after[name]
            if own:
                if b.get("data") != a.get("data"):
                    return make_violation(
                        self.prop, "K2", "resave-changed-dataset", feats,
                        f"re-saving changed dataset {name}", i)
                for ak in set(b["attrs"]) | set(a["attrs"]):
                    if ak in USER_ATTRS:
                        continue
                    if b["attrs"].get(ak) != a["attrs"].get(ak):
                        return make_violation(
                            self.prop, "K2", "resave-changed-attr", feats,
                            f"re-saving changed attribute {ak!r} of "
                            f"{name}", i)
                continue
            if name == own_data or name in ("data", "analysis"):
                # shared objects: content must stay, attributes may only be
                # completed
                if b.get("data") != a.get("data") or any(
                        a["attrs"].get(ak) != av
                        for ak, av in b["attrs"].items()):
                    return make_violation(
                        self.prop, "K2", "shared-object-changed", feats,
                        f"saving changed {name}", i)
                continue
            if b != a:
                return make_violation(
                    self.prop, "K2", "other-entry-changed", feats,
                    f"saving a curve changed {name}, which belongs to "
                    f"another entry", i)
        self.probes["K2 dump compared"] += 1
        return None

    # ------------------------------------------------------ reading back
    def check_container(self, path, ref, i, feats):
        """K1 / K4: the container loads and equals the reference."""
        import nanite.rate.io as rio
        from nanite.rate.features import IndentationFeatures
        w = self.w
        self.oracle_checks += 1
        feats = dict(feats)
        if not pathlib.Path(path).exists():
            if any(e["state"] == "stored" or "user_new" in e
                   for e in ref.values()):
                return make_violation(self.prop, "K4", "file-missing", feats,
                                      "container file vanished", i)
            # failed first saves that left no file: the entries are known
            # to be absent
            ref.clear()
            return None
        PLAN.disarm()
        PLAN.set_phase(None)
        try:
            with warnings.catch_warnings():
                warnings.simplefilter("ignore")
                ratings = rio.load_hdf5(path)
                meta = rio.RateManager(path).ratings
        except _caught() as e:
            rule = "K4" if feats.get("fault_at") or any(
                e2["state"] == "maybe" for e2 in ref.values()) else "K1"
            return make_violation(
                self.prop, rule, f"load-raises:{type(e).__name__}", feats,
                f"the container cannot be read: {type(e).__name__}: "
                f"{str(e)[:150]}", i)
        if len(meta) != len(ratings):
            return make_violation(self.prop, "K1", "ratemanager-count",
                                  feats, "RateManager and load_hdf5 "
                                  "disagree", i)
        try:
            with warnings.catch_warnings():
                warnings.simplefilter("ignore")
                mo = rio.load_hdf5(path, meta_only=True)
                rates = list(rio.RateManager(path).get_rates("user"))
        except _caught() as e:
            return make_violation(
                self.prop, "K1", f"meta-only-raises:{type(e).__name__}",
                feats, f"load_hdf5(meta_only=True)/get_rates raised "
                f"{type(e).__name__}: {str(e)[:120]}", i)
        if [(m["enum"], m["rating"], m["name"], m["comment"])
                for m in mo] != [(r["enum"], r["rating"], r["name"],
                                  r["comment"]) for r in ratings] or \
                rates != [r["rating"] for r in ratings]:
            return make_violation(
                self.prop, "K1", "meta-only-differs", feats,
                "load_hdf5(meta_only=True) / RateManager.get_rates('user') "
                "disagree with the full load", i)
        loaded = {}
        for r in ratings:
            ds = r["data_set"]
            lk = None
            for key in ref:
                e = ref[key]
                cc = w.config["curves"][e["ci"]]
                if int(r["enum"]) == key[1] and \
                        pathlib.Path(ds.path).name.startswith(key[0]):
                    lk = key
            if lk is None:
                return make_violation(
                    self.prop, "K1", "unknown-entry", feats,
                    f"container holds an entry the reference does not know "
                    f"(enum {r['enum']})", i)
            loaded[lk] = r
        resolved = []
        for key, e in ref.items():
            r = loaded.get(key)
            orig = w.curve(e["ci"], e["variant"])
            # hdf5_rated must agree
            try:
                # the rating GUI asks with a bare (path, enum) namespace
                import types
                probe = orig if (key[1] % 2) else types.SimpleNamespace(
                    path=orig.path, enum=orig.enum)
                is_rated, rate, comment = rio.hdf5_rated(path, probe)
            except _caught() as ex:
                return make_violation(
                    self.prop, "K4" if e["state"] == "maybe" else "K1",
                    f"hdf5_rated-raises:{type(ex).__name__}", feats,
                    f"hdf5_rated raised {type(ex).__name__}: {ex}", i)
            if e["state"] == "maybe":
                if r is None:
                    if "user_new" in e:
                        return make_violation(
                            self.prop, "K4", "entry-lost", feats,
                            f"a failed re-save made the previously "
                            f"acknowledged entry {key} unreadable", i)
                    # failed new entry: absent is fine
                    resolved.append((key, None))
                    continue
                self.probes["failed save left a complete entry"] += 1
                alts = [e["user"]] + ([e["user_new"]] if "user_new" in e
                                      else [])
                seen = {}
                for fld, rk in (("name", "name"), ("rate", "rating"),
                                ("comment", "comment")):
                    if r[rk] not in [a[fld] for a in alts]:
                        return make_violation(
                            self.prop, "K4", f"user-field:{fld}", feats,
                            f"after a failed save the user field {fld} is "
                            f"{r[rk]!r}, neither old nor new", i)
                    seen[fld] = r[rk]
                    if isinstance(seen[fld], (np.integer,)):
                        seen[fld] = int(seen[fld])
                v = self.compare_entry(r, orig, None, feats, i, rule="K4")
                if v:
                    return v
                resolved.append((key, seen))
                continue
            if r is None:
                return make_violation(
                    self.prop, "K4" if feats.get("fault_at") else "K1",
                    "entry-missing", feats,
                    f"acknowledged entry {key} is not returned by "
                    f"load_hdf5", i)
            if not is_rated or rate != e["user"]["rate"] or \
                    comment != e["user"]["comment"]:
                return make_violation(
                    self.prop, "K1", "hdf5_rated", feats,
                    f"hdf5_rated returned {(is_rated, rate, comment)!r} for "
                    f"an entry stored with {e['user']!r}", i)
            v = self.compare_entry(r, orig, e["user"], feats, i)
            if v:
                return v
        # uncertain entries are now known
        for key, seen in resolved:
            if seen is None:
                del ref[key]
            else:
                ref[key]["user"] = seen
                ref[key]["state"] = "stored"
                ref[key].pop("user_new", None)
        # the training-set view of the container: one row of rating
        # features per stored curve, those of the original (not repeated
        # for every enumerated fault position: it re-reads everything)
        if feats.get("fault_at") or feats.get("retry"):
            self.probes["container read back and compared"] += 1
            return None
        try:
            with warnings.catch_warnings():
                warnings.simplefilter("ignore")
                sm = np.asarray(rio.RateManager(path).samples)
        except _caught() as ex:
            return make_violation(
                self.prop, "K1", f"samples-raise:{type(ex).__name__}", feats,
                f"RateManager.samples raised {type(ex).__name__}: "
                f"{str(ex)[:120]}", i)
        if len(ratings) and sm.shape[0] != len(ratings):
            return make_violation(
                self.prop, "K1", "samples-count", feats,
                f"RateManager.samples has {sm.shape[0]} rows for "
                f"{len(ratings)} stored curves", i)
        for n_, r in enumerate(ratings):
            lk = [k_ for k_, r_ in loaded.items() if r_ is r]
            if not lk or lk[0] not in ref:
                continue
            e = ref[lk[0]]
            orig = w.curve(e["ci"], e["variant"])
            with warnings.catch_warnings():
                warnings.simplefilter("ignore")
                fa = np.asarray(IndentationFeatures.compute_features(orig),
                                dtype=float)
            if digest_array(fa) != digest_array(np.asarray(sm[n_],
                                                           dtype=float)):
                return make_violation(
                    self.prop, "K1", "samples", feats,
                    f"row {n_} of RateManager.samples differs from the "
                    f"rating features of the curve that was stored", i)
        self.probes["container read back and compared"] += 1
        return None

    def check_cross(self, i):
        """What was loaded from one container stays what it is when another
        container (holding the same measurement with another fit) is loaded
        afterwards."""
        import nanite.rate.io as rio
        w = self.w
        have = [k for k, p_ in enumerate(w.containers) if p_.exists()
                and w.ref[k]]
        if len(have) < 2:
            return None
        PLAN.disarm()
        PLAN.set_phase(None)
        a, b = have[0], have[1]
        feats = {"op": "cross-load"}
        try:
            with warnings.catch_warnings():
                warnings.simplefilter("ignore")
                ra = rio.load_hdf5(w.containers[a])
                rio.load_hdf5(w.containers[b])
        except _caught() as e:
            return make_violation(
                self.prop, "K1", f"load-raises:{type(e).__name__}", feats,
                f"loading two containers one after the other raised "
                f"{type(e).__name__}: {str(e)[:120]}", i)
        self.oracle_checks += 1
        self.probes["two containers loaded one after the other"] += 1
        for r in ra:
            for key, e in w.ref[a].items():
                if int(r["enum"]) == key[1] and pathlib.Path(
                        r["data_set"].path).name.startswith(key[0]) \
                        and e["state"] == "stored":
                    v = self.compare_entry(
                        r, w.curve(e["ci"], e["variant"]), e["user"],
                        feats, i)
                    if v:
                        v["site"] = "cross-load:" + v["site"]
                        return v
        return None

    def check_folder(self, i):
        """The training-set view of a FOLDER of containers (the documented
        input of RateManager): every stored curve contributes exactly one
        (rating features, user rating) pair - those of the curve that was
        stored. Compared as a multiset, so no order is demanded."""
        import nanite.rate.io as rio
        from nanite.rate.features import IndentationFeatures
        w = self.w
        have = [k for k, p_ in enumerate(w.containers) if p_.exists()
                and w.ref[k]]
        if len(have) < 2:
            return None
        if any(e["state"] != "stored" or "user_new" in e
               for k in have for e in w.ref[k].values()):
            return None
        PLAN.disarm()
        PLAN.set_phase(None)
        feats = {"op": "folder"}
        folder = w.scratch / "folder_of_containers"
        folder.mkdir()
        try:
            # file names in the reverse of the order of the containers
            for n, k in enumerate(reversed(have)):
                shutil.copy(w.containers[k], folder / f"day{n}_r{k}.h5")
            try:
                with warnings.catch_warnings():
                    warnings.simplefilter("ignore")
                    nper = sum(len(rio.load_hdf5(p_, meta_only=True))
                               for p_ in sorted(folder.glob("*.h5")))
                    rm = rio.RateManager(folder)
                    rates = list(rm.get_rates("user"))
                    sm = np.asarray(rm.samples)
                    nrt = len(rio.RateManager(folder).ratings)
            except _caught() as e:
                return make_violation(
                    self.prop, "K1", f"folder-raises:{type(e).__name__}",
                    feats, f"RateManager over a folder of containers "
                    f"raised {type(e).__name__}: {str(e)[:120]}", i)
        finally:
            shutil.rmtree(folder, ignore_errors=True)
        self.oracle_checks += 1
        want = []
        for k in have:
            for e in w.ref[k].values():
                orig = w.curve(e["ci"], e["variant"])
                with warnings.catch_warnings():
                    warnings.simplefilter("ignore")
                    fa = np.asarray(
                        IndentationFeatures.compute_features(orig),
                        dtype=float)
                want.append((digest_array(fa), repr(float(e["user"]["rate"]))))
        if nper != len(want):
            # the containers hold something the reference does not know
            # about (or the reverse): decided by the per-container checks
            self.probes["folder view skipped (entry count)"] += 1
            return None
        self.probes["folder of containers read through RateManager"] += 1
        if not (len(rates) == sm.shape[0] == nrt == len(want)):
            return make_violation(
                self.prop, "K1", "folder-count", feats,
                f"RateManager over a folder of {len(have)} containers with "
                f"{len(want)} stored curves: {len(rates)} user ratings, "
                f"{sm.shape[0]} feature rows, {nrt} entries", i)
        got = [(digest_array(np.asarray(sm[n_], dtype=float)),
                repr(float(rates[n_]))) for n_ in range(len(rates))]
        if sorted(got) != sorted(want):
            return make_violation(
                self.prop, "K1", "folder-pairs", feats,
                "RateManager over a folder of containers: the (rating "
                "features, user rating) pairs are not those of the curves "
                "that were stored (features and ratings of different "
                "curves are paired)", i)
        return None

    def compare_entry(self, r, orig, user, feats, i, rule="K1"):
        from nanite.rate.features import IndentationFeatures
        ds = r["data_set"]
        for c in COLS:
            try:
                got = digest_array(np.asarray(ds[c])) if c in ds else None
            except Exception as e:
                # e.g. a column that falls back to the (already removed)
                # temporary measurement file
                return make_violation(
                    self.prop, rule, f"col-unreadable:{c}", feats,
                    f"column {c!r} of the loaded entry cannot be read: "
                    f"{type(e).__name__}: {str(e)[:120]}", i)
            if got != digest_array(np.asarray(orig[c])):
                return make_violation(
                    self.prop, rule, f"col:{c}", feats,
                    f"column {c!r} of the loaded entry differs from the "
                    f"saved curve", i)
        a, b = norm_fp(orig.fit_properties), norm_fp(ds.fit_properties)
        for k in sorted(set(a) | set(b)):
            if a.get(k) != b.get(k):
                feats = dict(feats, key=k)
                return make_violation(
                    self.prop, rule, f"fp:{k}", feats,
                    f"fit property {k!r} loaded as {str(b.get(k))[:120]}, "
                    f"saved {str(a.get(k))[:120]}", i)
        # the settings reported next to the rating are those of this entry
        c = norm_fp(r["fit properties"])
        for k in sorted(set(a) | set(c)):
            if a.get(k) != c.get(k):
                feats = dict(feats, key=k)
                return make_violation(
                    self.prop, rule, f"reported-fp:{k}", feats,
                    f"rating['fit properties'][{k!r}] is "
                    f"{str(c.get(k))[:120]}, saved {str(a.get(k))[:120]}", i)
        if user is not None:
            for fld, rk in (("name", "name"), ("rate", "rating"),
                            ("comment", "comment")):
                if r[rk] != user[fld]:
                    return make_violation(
                        self.prop, rule, f"user-field:{fld}", feats,
                        f"user field {fld} loaded as {r[rk]!r}, saved "
                        f"{user[fld]!r}", i)
        with warnings.catch_warnings():
            warnings.simplefilter("ignore")
            try:
                fa = IndentationFeatures.compute_features(orig)
                fb = IndentationFeatures.compute_features(ds)
            except _caught() as e:
                return make_violation(
                    self.prop, rule, f"features-raise:{type(e).__name__}",
                    feats, f"rating features of the loaded curve raise "
                    f"{type(e).__name__}: {e}", i)
        if digest_array(fa) != digest_array(fb):
            return make_violation(
                self.prop, rule, "features", feats,
                "rating features of the loaded curve differ from the "
                "original's", i)
        return None

    # ------------------------------------------------- fault enumeration
    def enumerate_faults(self, k, ci, op, i):
        w = self.w
        path = w.containers[k]
        base = w.scratch / "enum_base.h5"
        work = w.scratch / "enum_work.h5"
        if path.exists():
            shutil.copy(path, base)
        elif base.exists():
            base.unlink()
        # count the write calls of this save on a copy
        self._copy(base, work)
        refc = copy.deepcopy(w.ref[k])
        orig = w.curve(ci, op["variant"])
        out = self.do_save(work, orig, op["user"], None)
        W = out["writes"]
        self.probes["saves with enumerated fault positions"] += 1
        for at in range(1, W + 1):
            for when in ("before", "after"):
                self._copy(base, work)
                refc = copy.deepcopy(w.ref[k])
                fault = {"seam": "h5write", "at": at,
                         "exc": ["ENOSPC", "EIO", "KeyboardInterrupt"][at % 3],
                         "when": when}
                self.failed_keys[id(refc)] = set(
                    self.failed_keys.get(id(w.ref[k]), set()))
                v = self.save(work, refc, ci, op, i, fault=fault)
                self.failed_keys.pop(id(refc), None) if v else None
                self.enum_positions += 1
                if v:
                    v["features"]["enum"] = True
                    return v
                # retry without fault; a normal return is an acknowledged
                # save
                v = self.save(work, refc, ci, op, i, fault=None, retry=True)
                if v:
                    v["features"]["enum"] = True
                    v["features"]["fault_at"] = at
                    v["features"]["fault_when"] = when
                    v["site"] += ":retry"
                    return v
        for p in (base, work):
            if p.exists():
                p.unlink()
        return None

    @staticmethod
    def _copy(src, dst):
        if src.exists():
            shutil.copy(src, dst)
        elif dst.exists():
            dst.unlink()

    def coverage_extra(self, results):
        return {"enumerated_fault_positions": sum(
            r.get("probes", {}).get("fault positions enumerated", 0)
            for r in results),
            "exhaustive_over": "write-call positions x {before, after} of "
            "every flagged save"}

    def simplify_op(self, op):
        for k in ("fault", "enum_faults", "retry"):
            if k in op:
                o = dict(op)
                o.pop(k)
                yield o
