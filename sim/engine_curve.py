"""curve-sim: one Indentation under a seeded history of operations and faults.

Serves C03 (history independence), C06 (preprocessing purity), C09 (rating)
and C10 (twin worlds: aliasing caller vs by-value caller).  DESIGN.md 4.1-4.4.
"""
import copy
import warnings

import numpy as np

from . import core, curves, seams
from .core import fhex, digest_array, make_violation
from .seams import PLAN

STEPS = ["compute_tip_position", "correct_force_offset", "correct_tip_offset",
         "correct_force_slope", "correct_split_approach_retract",
         "smooth_height"]
REQUIRES = {"correct_tip_offset": ["compute_tip_position"],
            "correct_force_slope": ["correct_tip_offset"],
            "correct_split_approach_retract": ["compute_tip_position"]}
POC_METHODS = ["deviation_from_baseline", "fit_constant_line",
               "fit_constant_polynomial", "fit_line_polynomial",
               "frechet_direct_path", "gradient_zero_crossing"]
MODELS = ["hertz_para", "hertz_cone", "hertz_pyr3s", "sneddon_spher_approx",
          "power_layer_clifford_2009", "sim_expr"]
RESULT_KEYS = ["params_fitted", "chi_sqr", "success", "xmin", "xmax",
               "optimal_fit_delta"]
FIT_COLS = ["fit", "fit residuals", "fit range"]


def _caught():
    from nanite.fit import FitKeyError, FitDataError
    from nanite.model.core import ModelError
    from afmformats.errors import MissingMetaDataError
    return (Exception, FitKeyError, FitDataError, ModelError,
            MissingMetaDataError)


# --------------------------------------------------------------------------
# observation
# --------------------------------------------------------------------------
def enc_params(p):
    return [[n, fhex(q.value), fhex(q.min), fhex(q.max), bool(q.vary),
             q.expr] for n, q in p.items()]


def enc(v):
    import lmfit
    if isinstance(v, lmfit.Parameters):
        return {"__params__": enc_params(v)}
    if isinstance(v, np.ndarray):
        return {"__nd__": digest_array(v)}
    if isinstance(v, (bool, np.bool_)):
        return bool(v)
    if isinstance(v, (int, np.integer)):
        return int(v)
    if isinstance(v, (float, np.floating)):
        return {"__f__": fhex(v)}
    if isinstance(v, (list, tuple)):
        return [enc(x) for x in v]
    if isinstance(v, dict):
        return {str(k): enc(x) for k, x in sorted(v.items(),
                                                  key=lambda kv: str(kv[0]))}
    if v is None or isinstance(v, str):
        return v
    return {"__repr__": type(v).__name__}


def enc_rating(r):
    if r is None:
        return None
    out = []
    for x in r:
        if isinstance(x, tuple) and len(x) == 2 and \
                isinstance(x[0], np.ndarray):
            out.append({"__ts__": [digest_array(x[0]), digest_array(x[1])]})
        else:
            out.append(enc(x))
    return out


def observe(idnt, with_rating=True):
    fp = {str(k): enc(v) for k, v in idnt.fit_properties.items()}
    cols = {}
    for c in idnt.columns:
        cols[c] = digest_array(np.asarray(idnt[c]))
    ob = {"fp": fp, "cols": cols,
          "preprocessing": enc(idnt.preprocessing),
          "preprocessing_options": enc(idnt.preprocessing_options)}
    if with_rating:
        ob["rating"] = enc_rating(idnt._rating)
    return ob


def abstract_state(idnt):
    from nanite.fit import FP_DEFAULT
    fp = idnt.fit_properties
    nondef = []
    for k in FP_DEFAULT:
        if k in fp and k not in ("params_initial", "preprocessing",
                                 "preprocessing_options"):
            try:
                if fp[k] != FP_DEFAULT[k]:
                    nondef.append(k)
            except Exception:
                nondef.append(k)
    prep = fp.get("preprocessing")
    return core.digest(["hash" in fp, bool(fp.get("success", None)),
                        "success" in fp, prep, sorted(nondef),
                        idnt._rating is not None,
                        "optimal_fit_E_array" in fp])


# --------------------------------------------------------------------------
# materialising arguments from JSON specs
# --------------------------------------------------------------------------
def build_params(spec, idnt, kw_model=None):
    """params_initial spec -> lmfit.Parameters (fresh object)."""
    from nanite import model
    if spec is None:
        return None
    mk = spec.get("model") or kw_model \
        or idnt.fit_properties.get("model_key", "hertz_para")
    if spec.get("source") == "object":
        # the documented workflow: get the parameters, edit them, fit.
        # "inplace": the returned object itself is edited and passed on
        p = idnt.get_initial_fit_parameters(
            model_key=None if spec.get("model") is None else mk)
        if not spec.get("inplace"):
            p = copy.deepcopy(p)
    else:
        p = model.models_available[mk].get_parameter_defaults()
    for name, ed in spec.get("edits", {}).items():
        if name in p:
            p[name].set(**ed)
    if spec.get("cp_edge") is not None and "tip position" in idnt:
        # contact point held fixed a few samples away from the deepest
        # point / the start of the approach curve
        x = np.asarray(idnt["tip position"])[
            np.asarray(idnt["segment"]) == 0]
        if x.size:
            fr = spec["cp_edge"]
            p["contact_point"].set(
                value=float(x.min() + fr * (x.max() - x.min())), vary=False)
    return p


def materialise_fit_kw(kw, idnt):
    out = {}
    for k, v in kw.items():
        if k == "params_initial":
            out[k] = build_params(v, idnt, kw.get("model_key"))
        elif isinstance(v, dict) and "__tuple__" in v:
            # a caller that passes a tuple where a list is usual
            out[k] = tuple(v["__tuple__"])
        else:
            out[k] = copy.deepcopy(v)
    return out


# --------------------------------------------------------------------------
# applying ops
# --------------------------------------------------------------------------
class RaterMemo:
    """Memoise standalone raters by configuration (construction is a
    deterministic function of the configuration; measured 0.2-0.4 s)."""

    def __init__(self):
        self.memo = {}

    @staticmethod
    def ts_key(ts):
        import pathlib
        if isinstance(ts, tuple):
            return ("tuple", digest_array(np.asarray(ts[0])),
                    digest_array(np.asarray(ts[1])))
        p = pathlib.Path(str(ts))
        if p.is_dir():
            h = []
            for f in sorted(p.glob("train_*.txt")):
                h.append((f.name, core.hashlib.sha256(
                    f.read_bytes()).hexdigest()[:12]))
            return ("dir", str(ts), tuple(h))
        return ("label", str(ts))

    def get(self, regressor, training_set="zef18", names=None, lda=None):
        key = (regressor, self.ts_key(training_set),
               None if names is None else tuple(names), lda,
               self.defaults_key(regressor))
        if key not in self.memo:
            self.memo[key] = self.build(regressor, training_set, names, lda)
        return self.memo[key]

    @staticmethod
    def defaults_key(regressor):
        """The library's *current* default keywords of the regressor (a
        construction is only reused while they are what they were)."""
        from nanite.rate.regressors import reg_dict
        return repr(reg_dict.get(regressor))

    def build(self, regressor, training_set, names, lda):
        """The library's own convenience constructor (code under test)."""
        import nanite.rate.rater as nr
        return nr.get_rater(regressor=regressor, training_set=training_set,
                            names=names, lda=lda)


class ReferenceRaterMemo(RaterMemo):
    @staticmethod
    def defaults_key(regressor):
        return "pristine"

    """Reference raters are assembled by the harness from the documented
    pieces (regressor table, training-set loader, IndentationRater), not
    through get_rater: a label is a label only if the argument *is* one of
    the shipped names; anything else is a path."""

    def build(self, regressor, training_set, names, lda):
        import nanite.rate.rater as nr
        from nanite.rate.regressors import reg_dict
        if isinstance(training_set, tuple):
            ts = training_set
        else:
            shipped = nr.get_available_training_sets()
            if isinstance(training_set, str) and training_set in shipped:
                path = nr.IndentationRater.get_training_set_path(
                    training_set)
            else:
                path = training_set
            ts = nr.IndentationRater.load_training_set(path=path,
                                                       names=names)
        pristine = seams._PRISTINE.get("nanite.rate.regressors.reg_dict")
        cls, kw = (pristine[0] if pristine else reg_dict)[regressor]
        return nr.IndentationRater(regressor=cls(**dict(kw)),
                                   training_set=ts, names=names, lda=lda)


TREE_REGRESSORS = {"AdaBoost", "Decision Tree", "Extra Trees",
                   "Gradient Tree Boosting", "Random Forest"}


def harness_load_ts(path, names):
    """The documented meaning of a training-set directory, read by the
    harness itself: one text column per continuous feature (in sorted
    order), NaN of worst-rated samples imputed by the mean of the other
    worst-rated samples, remaining NaN rows removed, +-inf replaced by
    +-2*max|finite values of that feature|."""
    import pathlib
    from nanite.rate.features import IndentationFeatures
    path = pathlib.Path(path)
    fnames = sorted(n for n in dir(IndentationFeatures)
                    if n.startswith("feat_con_"))
    if names:
        fnames = [n for n in fnames if n in names]
    cols = [np.loadtxt(str(path / f"train_{fn}.txt"), dtype=float, ndmin=2)
            for fn in fnames]
    X = np.concatenate(cols, axis=1)
    y = np.loadtxt(str(path / "train_response.txt"), dtype=float)
    zero = y == 0
    for j in range(X.shape[1]):
        col = X[:, j]
        nan = np.isnan(col)
        todo = np.logical_and(zero, nan)
        ref = np.logical_and(zero, ~nan)
        if np.any(todo) and np.any(ref):
            X[todo, j] = np.mean(col[ref])
    keep = ~np.array(np.sum(np.isnan(X), axis=1), dtype=bool)
    X, y = X[keep, :], y[keep]
    for j in range(X.shape[1]):
        col = X[:, j]
        inf = np.isinf(col)
        if np.any(inf):
            extreme = np.nanmax(np.abs(col[~inf]))
            X[np.isposinf(col), j] = 2 * extreme
            X[np.isneginf(col), j] = -2 * extreme
    return X, y


class HarnessPipelineMemo(RaterMemo):
    """Regression pipelines assembled by the harness from scikit-learn and
    the documented rules only (no IndentationRater, no get_rater): tree
    based regressors get neither scaling nor LDA by default, the others
    both; an explicit `lda` wins; samples are weighted by the inverse
    occurrence of their rating."""

    @staticmethod
    def defaults_key(regressor):
        return "pristine"

    def build(self, regressor, training_set, names, lda):
        import nanite.rate.rater as nr
        from nanite.rate.regressors import reg_dict
        from sklearn.discriminant_analysis import LinearDiscriminantAnalysis
        from sklearn.pipeline import make_pipeline
        from sklearn.preprocessing import StandardScaler
        if isinstance(training_set, tuple):
            X, y = training_set
        else:
            shipped = nr.get_available_training_sets()
            if isinstance(training_set, str) and training_set in shipped:
                path = nr.IndentationRater.get_training_set_path(
                    training_set)
            else:
                path = training_set
            X, y = harness_load_ts(path, names)
        pristine = seams._PRISTINE.get("nanite.rate.regressors.reg_dict")
        cls, kw = (pristine[0] if pristine else reg_dict)[regressor]
        tree = regressor in TREE_REGRESSORS
        steps = []
        if not tree:
            steps.append(StandardScaler())
        if (not tree) if lda is None else bool(lda):
            steps.append(LinearDiscriminantAnalysis())
        steps.append(cls(**dict(kw)))
        pipe = make_pipeline(*steps)
        y = np.asarray(y)
        w = np.zeros(y.shape[0], dtype=float)
        for ii in range(11):
            idx = y == ii
            occur = np.sum(idx)
            if occur:
                w[idx] = 1 / occur
        w /= np.sum(w)
        with warnings.catch_warnings():
            warnings.simplefilter("ignore")
            pipe.fit(np.asarray(X), y,
                     **{f"{pipe.steps[-1][0]}__sample_weight": w})
        return pipe


RATERS = RaterMemo()           # serves the nanite.indent.get_rater seam
REF_RATERS = ReferenceRaterMemo()
HARNESS_PIPES = HarnessPipelineMemo()


def merge_shared(idnt, options):
    """The one options dictionary a caller keeps for this curve, edited in
    place (nested entries included) to the value of `options`."""
    shared = idnt.__dict__.setdefault("_sim_shared_opts", {})
    for k_ in list(shared):
        if k_ not in options:
            del shared[k_]
    for k_, v_ in options.items():
        if isinstance(shared.get(k_), dict) and isinstance(v_, dict):
            for kk in list(shared[k_]):
                if kk not in v_:
                    del shared[k_][kk]
            shared[k_].update(v_)
        else:
            shared[k_] = v_
    return shared


def apply_op(idnt, op, log=None):
    """Apply one op to the real object with a well-behaved (by value)
    caller. Returns an outcome dict."""
    kind = op["op"]
    fault = op.get("fault")
    if fault:
        PLAN.arm(fault)
    else:
        PLAN.disarm()
    PLAN.set_phase(kind)
    out = {"ok": True}
    nmin0 = PLAN.total["minimize"]
    nrat0 = PLAN.total["get_rater"]
    nap0, napr0 = PLAN.apply_calls, PLAN.apply_returned
    try:
        with warnings.catch_warnings():
            warnings.simplefilter("ignore")
            if kind == "prep":
                steps = copy.deepcopy(op["steps"])
                options = copy.deepcopy(op.get("options"))
                if op.get("shared_options") and options is not None:
                    # the caller keeps ONE options dictionary for this curve
                    # and edits it in place (nested entries included) to
                    # what it wants next, then passes the same object
                    options = merge_shared(idnt, options)
                route = op.get("route", "apply")
                if route == "apply":
                    idnt.apply_preprocessing(steps, options)
                elif route == "details":
                    d = idnt.apply_preprocessing(steps, options,
                                                 ret_details=True)
                    out["ret"] = sorted(d) if isinstance(d, dict) else None
                elif route == "attr":
                    idnt.preprocessing = steps
                    if options is not None:
                        idnt.preprocessing_options = options
                    idnt.apply_preprocessing()
                elif route == "attr_inplace":
                    # the curve's own attributes edited in place, then the
                    # request with everything left out
                    idnt.preprocessing[:] = steps
                    if options is not None and \
                            idnt.preprocessing_options is not options:
                        po = idnt.preprocessing_options
                        options = copy.deepcopy(options)
                        for k_ in list(po):
                            if k_ not in options:
                                del po[k_]
                        for k_, v_ in options.items():
                            if isinstance(po.get(k_), dict) and \
                                    isinstance(v_, dict):
                                po[k_].clear()
                                po[k_].update(v_)
                            else:
                                po[k_] = v_
                    idnt.apply_preprocessing()
                elif route == "fit_kw":
                    kw = {"preprocessing": steps}
                    if options is not None:
                        kw["preprocessing_options"] = options
                    # further settings in the same call (the fitter may
                    # refuse them after the pipeline has been applied)
                    kw.update(materialise_fit_kw(op.get("fit_extra", {}),
                                                 idnt))
                    PLAN.set_phase("fit_kw")
                    idnt.fit_model(**kw)
            elif kind == "fit":
                kw = materialise_fit_kw(op.get("kw", {}), idnt)
                idnt.fit_model(**kw)
            elif kind == "setfp":
                v = op["value"]
                if op["key"] == "params_initial":
                    v = build_params(v, idnt)
                else:
                    v = copy.deepcopy(v)
                idnt.fit_properties[op["key"]] = v
            elif kind == "retype":
                from nanite.fit import FP_DEFAULT
                key = op["key"]
                cur = idnt.fit_properties.get(key, FP_DEFAULT.get(key))
                if isinstance(cur, (bool, np.bool_)):
                    new = int(cur) if key != "weight_cp" else 0
                elif isinstance(cur, (int, np.integer)):
                    new = (bool(cur) if cur in (0, 1) and key in (
                        "weight_cp", "optimal_fit_edelta", "gcf_k")
                        else float(cur))
                elif isinstance(cur, float) and cur == int(cur):
                    new = int(cur)
                else:
                    new = cur
                if key in ("segment", "optimal_fit_num_samples"):
                    new = cur       # must stay integral
                if op.get("route") == "fit":
                    idnt.fit_model(**{key: new})
                else:
                    idnt.fit_properties[key] = new
            elif kind == "reorder":
                # a dictionary setting passed again, same content, keys in
                # another order (also on the nested level)
                from nanite.fit import FP_DEFAULT
                key = op["key"]
                cur = idnt.fit_properties.get(key, FP_DEFAULT.get(key))

                def rev(d):
                    return {k_: rev(d[k_]) if isinstance(d[k_], dict)
                            else copy.deepcopy(d[k_])
                            for k_ in reversed(list(d))}
                new = rev(cur) if isinstance(cur, dict) else cur
                if op.get("route") == "fit":
                    idnt.fit_model(**{key: new})
                else:
                    idnt.fit_properties[key] = new
            elif kind == "nudge":
                # tiny change of a stored numeric setting (or of one
                # parameter attribute), applied through the given route
                from nanite.fit import FP_DEFAULT
                key = op["key"]
                cur = idnt.fit_properties.get(key, FP_DEFAULT.get(key))
                if key == "params_initial":
                    cur = copy.deepcopy(idnt.get_initial_fit_parameters())
                    nm = op["param"] if op["param"] in cur \
                        else list(cur)[0]
                    q = cur[nm]
                    attr = op.get("attr", "value")
                    if attr == "value":
                        q.set(value=float(q.value) + op["delta"] * max(
                            abs(float(q.value)), op.get("scale", 1e-9)))
                    elif attr == "max":
                        q.set(max=op.get("to", 1e9))
                    elif attr == "min":
                        q.set(min=op.get("to", -1e9))
                    elif attr == "vary":
                        q.set(vary=not q.vary)
                    elif attr == "expr":
                        # constrain the parameter to its current value by an
                        # expression (or release it again): the value stays,
                        # the setting changes
                        if q.expr is None:
                            q.set(expr=repr(float(q.value)))
                        elif nm != "E1":
                            q.set(expr="", vary=False)
                    new = cur
                elif key == "range_x":
                    new = [float(x) for x in cur]
                    new[op.get("index", 0) % 2] += op["delta"]
                else:
                    new = float(cur) + op["delta"]
                if op.get("route") == "fit":
                    idnt.fit_model(**{key: new})
                else:
                    idnt.fit_properties[key] = new
            elif kind == "rate":
                # "_alias": the caller passes the very objects it holds
                kw = op.get("kw", {}) if op.get("_alias") \
                    else copy.deepcopy(op.get("kw", {}))
                out["ret"] = fhex(idnt.rate_quality(**kw))
            elif kind == "emod":
                if op.get("samples"):
                    idnt.fit_properties["optimal_fit_num_samples"] = \
                        op["samples"]
                if op.get("callback_raises") is not None:
                    # progress callback (called every five steps) that
                    # aborts the scan, e.g. a GUI's cancel button
                    calls = [0]

                    def cb(em, ind, n=op["callback_raises"]):
                        calls[0] += 1
                        if calls[0] >= n:
                            raise core.InjectedFault("callback aborts scan")
                    e, d = idnt.compute_emodulus_mindelta(callback=cb)
                else:
                    e, d = idnt.compute_emodulus_mindelta()
                out["ret"] = [digest_array(e), digest_array(d)]
            elif kind == "getinit":
                p = idnt.get_initial_fit_parameters(
                    model_key=op.get("model_key"))
                out["ret"] = enc_params(p)
            elif kind == "optdelta":
                out["ret"] = fhex(idnt.estimate_optimal_mindelta())
            else:
                raise core.HarnessError(f"unknown op {kind}")
    except core.HarnessError:
        raise
    except core.INJECTED as e:
        out = {"ok": False, "exc": type(e).__name__, "injected": True}
    except _caught() as e:
        out = {"ok": False, "exc": type(e).__name__,
               "msg": str(e)[:120]}
    finally:
        fired = PLAN.fired
        PLAN.disarm()
    out["minimize_calls"] = PLAN.total["minimize"] - nmin0
    out["apply_calls"] = PLAN.apply_calls - nap0
    out["apply_returned"] = PLAN.apply_returned - napr0
    out["rater_constructions"] = PLAN.total["get_rater"] - nrat0
    if fired:
        out["fired"] = fired
    return out


# --------------------------------------------------------------------------
# C03 oracle: fresh(S)
# --------------------------------------------------------------------------
def stored_settings(idnt):
    from nanite.fit import FP_DEFAULT
    return {k: copy.deepcopy(v) for k, v in idnt.fit_properties.items()
            if k in FP_DEFAULT}


FRESH_MEMO = {}
FRESH_OBJ_MEMO = {}


def fresh_key(idnt, cfg):
    S = stored_settings(idnt)
    claims = "hash" in idnt.fit_properties
    arrays = "optimal_fit_E_array" in idnt.fit_properties
    return core.digest([cfg, enc(S), claims, arrays]), S, claims, arrays


def build_fresh_obj(idnt, cfg):
    """Freshly built copy of the curve with the *stored* settings applied
    once. Returns (fresh object, error string or None); memoised per run."""
    key, S, claims, arrays = fresh_key(idnt, cfg)
    if key in FRESH_OBJ_MEMO:
        return FRESH_OBJ_MEMO[key]
    f = curves.make_curve(cfg)
    PLAN.disarm()
    err = None
    with warnings.catch_warnings():
        warnings.simplefilter("ignore")
        try:
            if "preprocessing" in S:
                f.apply_preprocessing(S["preprocessing"],
                                      S.get("preprocessing_options", {}))
            S2 = {k: v for k, v in S.items()
                  if k not in ("preprocessing", "preprocessing_options")}
            if claims:
                f.fit_model(**S2)
            else:
                for k in sorted(S2):
                    f.fit_properties[k] = S2[k]
            if arrays and "optimal_fit_E_array" not in f.fit_properties:
                f.compute_emodulus_mindelta()
        except _caught() as e:
            err = f"{type(e).__name__}: {str(e)[:100]}"
    FRESH_OBJ_MEMO[key] = (f, err)
    return f, err


def build_fresh(idnt, cfg):
    """Observation of the fresh copy (see build_fresh_obj).

    Memoised per run on (curve, encoded stored settings, claims-a-fit,
    holds-scan-arrays): the fresh copy is a deterministic function of these
    (that determinism is what the null-history self-test checks), and most
    ops leave the stored settings unchanged.
    """
    key = fresh_key(idnt, cfg)[0]
    if key not in FRESH_MEMO:
        f, err = build_fresh_obj(idnt, cfg)
        FRESH_MEMO[key] = (observe(f, False), err)
    return FRESH_MEMO[key]


def settings_features(idnt, last_op, outcome):
    fp = idnt.fit_properties
    gk = fp.get("gcf_k", 1.0)
    try:
        gk1 = bool(gk == 1)
    except Exception:
        gk1 = False
    return {"last_op": last_op["op"],
            "last_ok": bool(outcome.get("ok")),
            "gcf_k_is_1": gk1,
            "range_type": str(fp.get("range_type", "absolute")),
            "edelta": bool(fp.get("optimal_fit_edelta", False)),
            "faulted": bool(outcome.get("fired"))}


def check_r1(prop, idnt, cfg, last_op, outcome, i):
    """R1 current-or-absent."""
    fp = idnt.fit_properties
    feats = settings_features(idnt, last_op, outcome)
    of, err = build_fresh(idnt, cfg)
    claims = "hash" in fp
    if err is not None:
        if claims:
            return make_violation(
                prop, "R1", "fresh-raises", feats,
                f"object claims a current fit, but a fresh copy with the "
                f"stored settings raises {err}", i)
        # an unfitted object whose stored settings are unusable is fine as
        # long as it shows no results
        for k in RESULT_KEYS:
            if k in fp:
                return make_violation(
                    prop, "R1", f"stale:{k}", feats,
                    f"result key {k!r} shown although no fit is claimed", i)
        return None
    ob = observe(idnt, False)
    if claims:
        keys = sorted(set(ob["fp"]) | set(of["fp"]))
        for k in keys:
            if ob["fp"].get(k) != of["fp"].get(k):
                return make_violation(
                    prop, "R1", f"fp:{k}", feats,
                    f"fit_properties[{k!r}] differs from a fresh copy with "
                    f"the stored settings: {str(ob['fp'].get(k))[:160]} vs "
                    f"{str(of['fp'].get(k))[:160]}", i)
        cols = sorted(set(ob["cols"]) | set(of["cols"]))
        for c in cols:
            if ob["cols"].get(c) != of["cols"].get(c):
                return make_violation(
                    prop, "R1", f"col:{c}", feats,
                    f"column {c!r} differs from a fresh copy with the "
                    f"stored settings", i)
    else:
        for k in RESULT_KEYS:
            if k in fp:
                return make_violation(
                    prop, "R1", f"stale:{k}", feats,
                    f"result key {k!r} shown although no fit is claimed", i)
        for k in ("optimal_fit_E_array", "optimal_fit_delta_array"):
            if k in ob["fp"] and ob["fp"][k] != of["fp"].get(k):
                return make_violation(
                    prop, "R1", f"fp:{k}", feats,
                    f"plateau scan array {k!r} differs from the one a fresh "
                    f"copy computes for the stored settings", i)
        cols = sorted((set(ob["cols"]) | set(of["cols"])) - set(FIT_COLS))
        for c in cols:
            if ob["cols"].get(c) != of["cols"].get(c):
                return make_violation(
                    prop, "R1", f"col:{c}", feats,
                    f"data column {c!r} differs from a fresh copy with the "
                    f"stored preprocessing", i)
    return None


def check_r2(prop, idnt, last_op, outcome, i):
    """R2 idempotence: refit with unchanged settings = 0 optimiser calls,
    nothing changes."""
    if "hash" not in idnt.fit_properties:
        return None
    before = observe(idnt)
    n0 = PLAN.total["minimize"]
    PLAN.disarm()
    feats = settings_features(idnt, last_op, outcome)
    with warnings.catch_warnings():
        warnings.simplefilter("ignore")
        try:
            idnt.fit_model()
        except _caught() as e:
            return make_violation(prop, "R2", "refit-raises", feats,
                                  f"fit_model() on a fitted curve raised "
                                  f"{type(e).__name__}: {e}", i)
    n = PLAN.total["minimize"] - n0
    if n:
        return make_violation(prop, "R2", "reoptimised", feats,
                              f"repeating the fit with unchanged settings "
                              f"made {n} optimiser calls", i)
    after = observe(idnt)
    if after != before:
        site = "changed"
        for part in ("fp", "cols"):
            for k in sorted(set(before[part]) | set(after[part])):
                if before[part].get(k) != after[part].get(k):
                    site = f"changed:{part}:{k}"
                    break
            if site != "changed":
                break
        return make_violation(prop, "R2", site, feats,
                              "repeating the fit with unchanged settings "
                              "changed the object", i)
    return None


# --------------------------------------------------------------------------
# generation
# --------------------------------------------------------------------------
def gen_pipeline(rng, full_bias=0.5):
    if rng.random() < full_bias:
        base = ["compute_tip_position", "correct_force_offset",
                "correct_tip_offset"]
        if rng.random() < 0.3:
            base.append(rng.choice(STEPS[3:]))
        return base
    chosen = set(s for s in STEPS if rng.random() < 0.45)
    # close under requirements
    changed = True
    while changed:
        changed = False
        for s in list(chosen):
            for r in REQUIRES.get(s, []):
                if r not in chosen:
                    chosen.add(r)
                    changed = True
    out = []
    rest = sorted(chosen)
    while rest:
        ready = [s for s in rest
                 if all(r in out for r in REQUIRES.get(s, []))]
        s = rng.choice(ready)
        out.append(s)
        rest.remove(s)
    return out


def legal_permutation(rng, steps):
    """The same steps in another order that still satisfies the required
    predecessors (a different pipeline with an equal step set)."""
    out, rest = [], list(steps)
    while rest:
        ready = [x for x in rest
                 if all(r in out for r in REQUIRES.get(x, []))]
        if not ready:
            return list(steps)
        x = rng.choice(ready)
        out.append(x)
        rest.remove(x)
    return out


def gen_options(rng, steps, allow_invalid=False):
    opts = {}
    if "correct_tip_offset" in steps and rng.random() < 0.5:
        opts["correct_tip_offset"] = {"method": rng.choice(
            POC_METHODS if rng.random() < 0.3 else
            ["deviation_from_baseline", "gradient_zero_crossing",
             "frechet_direct_path"])}
    if "correct_force_slope" in steps and rng.random() < 0.7:
        o = {}
        if rng.random() < 0.8:
            o["region"] = rng.choice(["baseline", "approach", "all"])
        if rng.random() < 0.8:
            o["strategy"] = rng.choice(["drift", "shift"])
        opts["correct_force_slope"] = o
    if allow_invalid:
        which = rng.random()
        if "correct_force_slope" in steps and which < 0.4:
            opts["correct_force_slope"] = {
                rng.choice(["region", "strategy"]): "bogus"}
        elif "correct_tip_offset" in steps and which < 0.8:
            opts["correct_tip_offset"] = {"method": "bogus"}
        elif steps:
            opts[steps[-1]] = {"bogus_kw": 1}
    if not opts and rng.random() < 0.3:
        return None
    return opts


def gen_invalid_request(rng):
    """(steps, options) that a fresh curve rejects."""
    r = rng.random()
    if r < 0.3:
        steps = gen_pipeline(rng)
        steps.insert(rng.randrange(len(steps) + 1), "bogus")
        return steps, gen_options(rng, steps)
    if r < 0.6:
        # missing prerequisite
        s = rng.choice(["correct_tip_offset", "correct_force_slope",
                        "correct_split_approach_retract"])
        steps = [s] if rng.random() < 0.5 else ["correct_force_offset", s]
        if s == "correct_force_slope" and rng.random() < 0.5:
            steps = ["compute_tip_position", s]
        return steps, gen_options(rng, steps)
    steps = ["compute_tip_position", "correct_force_offset",
             "correct_tip_offset"]
    if rng.random() < 0.6:
        steps.append("correct_force_slope")
    if r < 0.8:
        # rejected with TypeError after earlier steps edited the data
        opts = {"correct_tip_offset": rng.choice(
            [{"methd": "gradient_zero_crossing"}, None,
             {"method": "fit_constant_line", "extra": 1}])}
        return steps, opts
    return steps, gen_options(rng, steps, allow_invalid=True)


def gen_params_spec(rng, model=None):
    spec = {"model": model, "edits": {}}
    if rng.random() < 0.3:
        spec["source"] = "object"
        if rng.random() < 0.5:
            spec["inplace"] = True
    n = rng.choice([0, 1, 1, 2])
    pool = [("E", {"value": rng.choice([500.0, 2000.0, 1e4])}),
            ("contact_point", {"value": rng.choice([0.0, 1e-7, -2e-7,
                                                    5e-8])}),
            ("baseline", {"vary": False}),
            ("baseline", {"value": 1e-11}),
            ("contact_point", {"vary": False}),
            ("E", {"min": 10.0, "max": 1e6}),
            ("R", {"value": 5e-6}),
            ("nu", {"value": 0.45}),
            ("alpha", {"value": 20}),
            ("virtual_parameter", {"value": 20.0, "max": 1e5}),
            ]
    for _ in range(n):
        name, ed = rng.choice(pool)
        spec["edits"].setdefault(name, {}).update(ed)
    return spec


FIT_KEYS = ["model_key", "params_initial", "range_type", "range_x",
            "segment", "weight_cp", "gcf_k", "optimal_fit_edelta",
            "optimal_fit_num_samples", "method", "method_kws", "x_axis",
            "y_axis"]


def gen_fit_kw(rng, nkeys=None, invalid=False, force_key=None):
    kw = {}
    pool = FIT_KEYS
    if nkeys is None:
        nkeys = rng.choice([0, 1, 1, 2, 2, 3, 4])
    chosen = rng.sample(pool, nkeys)
    if force_key is not None:
        chosen = [force_key] + [k for k in chosen if k != force_key]
    for k in chosen:
        if k == "model_key":
            kw[k] = rng.choice(MODELS)
        elif k == "params_initial":
            kw[k] = None if rng.random() < 0.2 else gen_params_spec(
                rng, kw.get("model_key"))
        elif k == "range_type":
            kw[k] = rng.choice(["absolute", "relative cp"])
            if kw[k] == "relative cp" and rng.random() < 0.3:
                # first pass succeeds, the later passes have no points
                kw["range_x"] = rng.choice([[-1e-12, 1e-12], [-1e-12, 0]])
        elif k == "range_x":
            kw[k] = rng.choice([[0, 0], [-1e-6, 5e-7], [-2e-6, 0],
                                [-5e-7, 1e-6], [5e-7, -1e-6],
                                [-8e-7, 2e-6], [0, 1e-6],
                                [-float("inf"), 0.0], [1.9e-5, 2.2e-5],
                                [-1e-12, 1e-12], [-1e-12, 0],
                                [-1e-6, -1e-6],
                                {"__tuple__": [-1e-6, 5e-7]}])
        elif k == "segment":
            kw[k] = rng.choice([0, 1, "approach", "retract"])
        elif k == "weight_cp":
            kw[k] = rng.choice([0, False, 1e-7, 5e-7, 2e-6, 1e-6])
        elif k == "gcf_k":
            kw[k] = rng.choice([1.0, 1, 0.5, 0.6135, 2.0])
        elif k == "optimal_fit_edelta":
            kw[k] = rng.random() < 0.7
            if kw[k] and rng.random() < 0.9:
                kw["optimal_fit_num_samples"] = rng.choice([7, 7, 8, 9, 12, 6])
        elif k == "optimal_fit_num_samples":
            kw.setdefault(k, rng.choice([5, 7, 10]))
        elif k == "method":
            kw[k] = rng.choice(["leastsq", "least_squares", "nelder"])
            if kw[k] == "nelder":
                kw["method_kws"] = {"max_nfev": rng.choice([20, 40])}
        elif k == "method_kws":
            kw.setdefault(k, rng.choice([{}, {"max_nfev": 50},
                                         {"max_nfev": 200}]))
        elif k == "x_axis":
            kw[k] = rng.choice(["tip position", "tip position",
                                "height (measured)"])
        elif k == "y_axis":
            kw[k] = "force"
    if invalid:
        r = rng.random()
        if r < 0.2:
            kw[rng.choice(["bogus_key", "zzz_unknown", "a_first"])] = 1
        elif r < 0.35:
            kw["range_type"] = "relative"
        elif r < 0.5:
            kw["range_x"] = rng.choice([[0, 1e-6, 2e-6],
                                        [float("nan"), 0]])
        elif r < 0.6:
            kw["segment"] = 0.5
        elif r < 0.68:
            # an axis that does not exist (the setting is stored, the fit
            # is refused)
            kw[rng.choice(["x_axis", "y_axis"])] = "no such column"
        elif r < 0.75:
            kw["model_key"] = "no_such_model"
        elif r < 0.9:
            kw["model_key"] = "hertz_cone"
            kw["params_initial"] = {"model": "hertz_para", "edits": {}}
        else:
            kw["optimal_fit_edelta"] = True
            kw["range_type"] = "relative cp"
    return kw


def gen_setfp(rng):
    kw = gen_fit_kw(rng, nkeys=1)
    if not kw:
        return {"op": "setfp", "key": "weight_cp", "value": 3e-7}
    k = rng.choice(sorted(kw))
    return {"op": "setfp", "key": k, "value": kw[k]}


def gen_nudge(rng):
    key = rng.choice(["range_x", "range_x", "weight_cp", "gcf_k",
                      "params_initial", "params_initial"])
    op = {"op": "nudge", "key": key,
          "route": rng.choice(["fit", "fit", "setitem"])}
    if rng.random() < 0.2:
        # equal value, other type (False <-> 0, 1 <-> 1.0, True <-> 1)
        # (only settings that are numbers by nature: a sample count or a
        # segment index must stay integral)
        return {"op": "retype", "key": rng.choice(
            ["weight_cp", "gcf_k", "optimal_fit_edelta"]),
            "route": rng.choice(["fit", "setitem"])}
    if key == "range_x":
        op["index"] = rng.randrange(2)
        op["delta"] = rng.choice([5e-9, -3e-9, 1e-10, 8e-9, 2e-8, 1e-12,
                                  2e-6, -2e-6, 3e-6])
    elif key == "weight_cp":
        op["delta"] = rng.choice([1e-9, 5e-9, 1e-12])
    elif key == "gcf_k":
        op["delta"] = rng.choice([1e-9, 1e-6, -1e-7])
    else:
        op["param"] = rng.choice(["E", "contact_point", "baseline", "R",
                                  "nu"])
        op["attr"] = rng.choice(["value", "value", "max", "min", "vary",
                                 "expr"])
        op["delta"] = rng.choice([1e-9, 1e-6, -1e-7, 1e-12])
        if op["attr"] == "max":
            op["to"] = rng.choice([1e9, 1e12, 1e6])
        if op["attr"] == "min":
            op["to"] = rng.choice([-1e9, -1.0, -1e-3])
    return op


def gen_fault(rng, seams_pool, max_at=4):
    return {"seam": rng.choice(seams_pool),
            "at": rng.randint(1, max_at),
            "exc": rng.choice(["RuntimeError", "RuntimeError",
                               "KeyboardInterrupt", "MemoryError"])}


COMPONENTS = {
    "real": ["nanite (all of it, from the working tree)", "afmformats",
             "lmfit/scipy optimisers", "scikit-learn regressors", "numpy"],
    "stubbed": ["nothing is replaced; seams are pass-through wrappers that "
                "count calls and raise injected exceptions: "
                "nanite.fit.lmfit.minimize, nanite.poc.compute_poc, "
                "nanite.poc.poc_deviation_from_baseline, "
                "nanite.preproc.{smooth_axis_monotone,find_turning_point,"
                "lmfit.models.LinearModel}, nanite.indent.get_rater, "
                "harness model sim_expr"],
}


class CurveEngineC03:
    prop = "C03"
    components = COMPONENTS
    assumptions = [
        "the caller passes fresh deep copies and never edits returned "
        "objects (aliasing is C10's business); one exception: some "
        "preprocessing requests come from a caller that keeps a single "
        "options dictionary per curve and edits it in place between "
        "requests - by value an ordinary sequence of requests",
        "oracle recomputes with nanite's own code on a freshly built curve: "
        "detects history/cache dependence, not a formula that is wrong the "
        "same way from scratch",
        "bitwise equality: preprocessing+fit are deterministic functions of "
        "their inputs in one environment (checked by the null-history "
        "self-test)",
        "'visible' results are those nanite's own readers use "
        "(fit_properties); a leftover fit column on an object that does not "
        "claim a fit is not counted as shown",
    ]
    rule_text = (
        "seeded op lists (3-25 ops) over {apply_preprocessing via 3 routes, "
        "fit_model(subset of all FP_DEFAULT keys, valid and invalid), "
        "fit_properties[k]=v, rate_quality, compute_emodulus_mindelta, "
        "get_initial_fit_parameters, estimate_optimal_mindelta} with injected "
        "optimiser/model/preprocessing faults on synthetic and recorded "
        "curves; after every op R1 (object == fresh curve with stored "
        "settings, bitwise) and R2 (refit = 0 optimiser calls, no change). "
        "distinct = distinct op-list digest; non-trivial = contains a "
        "state-changing op (prep/fit/setfp/getinit) after the first fit "
        "result existed")

    def generate(self, rng, tier, index):
        big = rng.random() < 0.25
        cfg = curves.gen_curve_cfg(rng, allow_recorded=True, big=big)
        swarm = {
            "faults": rng.random() < 0.5,
            "invalid": rng.random() < 0.6,
            "gcf": rng.random() < 0.6,
            "edelta": rng.random() < 0.5,
            "rate": rng.random() < 0.3,
            "prep_heavy": rng.random() < 0.3,
        }
        nops = rng.choice([3, 4, 5, 6, 8, 10, 12] if tier == "quick"
                          else [3, 5, 8, 12, 16, 20, 25])
        ops = []
        # most histories start from a sensible state
        if rng.random() < 0.8:
            ops.append({"op": "prep", "route": "apply",
                        "steps": ["compute_tip_position",
                                  "correct_force_offset",
                                  "correct_tip_offset"],
                        "options": None})
        if ops and rng.random() < 0.2:
            # before any fit: choose a model, look at the plateau scan,
            # change one setting (which one rotates with the run index) -
            # the scan shown afterwards belongs to the stored settings
            ma = rng.choice(MODELS[:4])
            ops.append({"op": "setfp", "key": "model_key", "value": ma})
            ops.append({"op": "emod", "samples": rng.choice([7, 8])})
            key = (["model_key"] + FIT_KEYS)[index % (len(FIT_KEYS) + 1)]
            if key == "model_key":
                ops.append({"op": "setfp", "key": "model_key",
                            "value": rng.choice([m for m in MODELS[:4]
                                                 if m != ma])})
            else:
                kw = gen_fit_kw(rng, nkeys=1, force_key=key)
                ops.append({"op": "setfp", "key": key, "value": kw.get(key)})
            if rng.random() < 0.5:
                ops.append({"op": "emod"})
        if ops and rng.random() < 0.75:
            # directed prefix: fit, change exactly one thing (which one
            # rotates with the run index, so that every batch meets every
            # key through every route), fit again
            ops.append({"op": "fit", "kw": gen_fit_kw(
                rng, nkeys=rng.choice([0, 1]))})
            combos = [(route, k) for k in FIT_KEYS
                      for route in ("fit", "setfp")] + \
                [("nudge", None), ("nudge", None), ("details", None),
                 ("reorder", None),
                 ("emod", None), ("same_prep", None), ("getinit", None),
                 ("retype", None), ("retype", None), ("range0", None)]
            route, key = combos[index % len(combos)]
            if route == "fit":
                ops.append({"op": "fit", "kw": gen_fit_kw(
                    rng, nkeys=1, force_key=key)})
            elif route == "setfp":
                kw = gen_fit_kw(rng, nkeys=1, force_key=key)
                ops.append({"op": "setfp", "key": key,
                            "value": kw.get(key)})
            elif route == "nudge":
                ops.append(gen_nudge(rng))
            elif route == "reorder":
                ops[-1] = {"op": "fit", "kw": {"method_kws": rng.choice(
                    [{"max_nfev": 200, "ftol": 1e-9},
                     {"xtol": 1e-9, "ftol": 1e-10, "max_nfev": 300}])}}
                ops.append({"op": "reorder", "key": "method_kws",
                            "route": rng.choice(["fit", "setitem"])})
            elif route == "retype":
                ops.append({"op": "retype", "key": rng.choice(
                    ["weight_cp", "gcf_k", "optimal_fit_edelta"]),
                    "route": rng.choice(["fit", "setitem"])})
            elif route == "range0":
                # plateau search on, then only the lower bound moves (above
                # the upper one: an inverted, legal range)
                ops.append({"op": "fit", "kw": {
                    "optimal_fit_edelta": True,
                    "optimal_fit_num_samples": 7,
                    "range_x": [-1e-6, 5e-7]}})
                ops.append({"op": "nudge", "key": "range_x", "index": 0,
                            "delta": rng.choice([2e-6, 3e-6]),
                            "route": rng.choice(["fit", "setitem"])})
            elif route == "details":
                ops.append({"op": "prep", "route": "details",
                            "steps": ["compute_tip_position",
                                      "correct_force_offset",
                                      "correct_tip_offset"],
                            "options": None})
            elif route == "emod":
                ops.append({"op": "emod", "samples": 7})
                ops.append({"op": "setfp", "key": "optimal_fit_num_samples",
                            "value": rng.choice([9, 8])})
                ops.append({"op": "emod"})
            elif route == "same_prep":
                ops.append({"op": "prep", "route": rng.choice(
                    ["apply", "fit_kw", "attr"]),
                    "steps": ["compute_tip_position",
                              "correct_force_offset", "correct_tip_offset"],
                    "options": rng.choice([None, {}])})
            else:
                ops.append({"op": "getinit", "model_key": rng.choice(
                    [None] + MODELS)})
            ops.append({"op": "fit", "kw": {}})
        while len(ops) < nops:
            r = rng.random()
            if r < (0.3 if swarm["prep_heavy"] else 0.12):
                if swarm["invalid"] and rng.random() < 0.3:
                    steps, options = gen_invalid_request(rng)
                else:
                    steps = gen_pipeline(rng)
                    options = gen_options(rng, steps)
                op = {"op": "prep",
                      "route": rng.choice(["apply", "apply", "fit_kw",
                                           "attr", "details"]),
                      "steps": steps, "options": options}
                if rng.random() < 0.25:
                    # the standard pipeline again (skip-if-unchanged path,
                    # first request for details on a fitted curve)
                    op["steps"] = ["compute_tip_position",
                                   "correct_force_offset",
                                   "correct_tip_offset"]
                    op["options"] = None
                if swarm["faults"] and rng.random() < 0.2:
                    op["fault"] = gen_fault(
                        rng, ["poc", "poc", "slopefit", "smooth", "turning",
                              "poc_dfb"], 3)
                if op["options"] and rng.random() < 0.3 \
                        and "fault" not in op:
                    # a caller that keeps one options dictionary for this
                    # curve, edits it in place (nested entries included) and
                    # passes the same object again: by value it is an
                    # ordinary sequence of requests
                    op["shared_options"] = True
                    if op["options"].get("correct_tip_offset") and \
                            rng.random() < 0.7:
                        ops.append(op)
                        if rng.random() < 0.5:
                            ops.append({"op": "fit", "kw": {}})
                        op = copy.deepcopy(op)
                        cur = op["options"]["correct_tip_offset"].get(
                            "method")
                        op["options"]["correct_tip_offset"]["method"] = \
                            rng.choice([m for m in POC_METHODS[:1]
                                        + POC_METHODS[4:] if m != cur])
                        op["route"] = rng.choice(["apply", "fit_kw"])
            elif r < 0.62:
                inv = swarm["invalid"] and rng.random() < 0.2
                kw = gen_fit_kw(rng, invalid=inv)
                if not swarm["gcf"]:
                    kw.pop("gcf_k", None)
                if not swarm["edelta"]:
                    kw.pop("optimal_fit_edelta", None)
                if rng.random() < 0.15:
                    # settings and a (possibly different) pipeline in one
                    # call: the pipeline is applied before the fit part
                    if swarm["invalid"] and rng.random() < 0.15:
                        st, o = gen_invalid_request(rng)
                    else:
                        st = gen_pipeline(rng)
                        o = gen_options(rng, st)
                    kw["preprocessing"] = st
                    if o is not None:
                        kw["preprocessing_options"] = o
                        if rng.random() < 0.35:
                            # only the options change; the steps stay the
                            # remembered ones
                            kw.pop("preprocessing")
                op = {"op": "fit", "kw": kw}
                if swarm["faults"] and rng.random() < 0.3:
                    op["fault"] = gen_fault(
                        rng, ["minimize", "minimize", "model", "poc"],
                        6 if kw.get("optimal_fit_edelta") else 4)
            elif r < 0.69:
                op = gen_nudge(rng)
            elif r < 0.75:
                op = gen_setfp(rng)
                if not swarm["gcf"] and op["key"] == "gcf_k":
                    op = {"op": "setfp", "key": "weight_cp", "value": 4e-7}
            elif r < 0.82:
                op = {"op": "refit"}
                op = {"op": "fit", "kw": {}}
            elif r < 0.88:
                op = {"op": "emod"}
                if rng.random() < 0.9:
                    op["samples"] = rng.choice([7, 8, 9, 12, 5])
                if rng.random() < 0.25:
                    op["callback_raises"] = rng.choice([1, 2])
                if swarm["faults"] and rng.random() < 0.3:
                    op["fault"] = gen_fault(rng, ["minimize"], 8)
            elif r < 0.92:
                op = {"op": "getinit",
                      "model_key": rng.choice([None, None] + MODELS)}
            elif r < 0.94:
                op = {"op": "optdelta"}
            else:
                if swarm["rate"]:
                    op = {"op": "rate",
                          "kw": rng.choice([{}, {"regressor": "none"},
                                            {"regressor": "Decision Tree"}])}
                else:
                    op = {"op": "fit", "kw": {}}
            ops.append(op)
        if index % 13 == 5:
            # directed tail (run index alone; appended, so the rest of the
            # run is what it was): the same steps in two legal orders, one
            # after the other - another order is another pipeline, the fit
            # belongs to the data processed in the order asked for
            A_ = ["compute_tip_position", "smooth_height",
                  "correct_force_offset", "correct_tip_offset"]
            B_ = ["smooth_height", "compute_tip_position",
                  "correct_force_offset", "correct_tip_offset"]
            if (index // 13) % 2:
                A_, B_ = B_, A_
            rt_ = ["fit_kw", "apply", "attr"][(index // 26) % 3]
            if cfg["kind"] != "recorded":
                # smoothing is the identity on a synthetic height ramp
                cfg = {"kind": "recorded", "enum": 0,
                       "file": curves.RECORDED_SINGLE[(index // 13) % 4]}
            ops += [{"op": "prep", "route": "fit_kw", "steps": A_,
                     "options": None},
                    {"op": "fit", "kw": {}},
                    {"op": "prep", "route": rt_, "steps": B_,
                     "options": None},
                    {"op": "fit", "kw": {}}]
        return {"config": {"curve": cfg, "swarm": swarm,
                           "xproc": index % 24 == 11}, "ops": ops}

    track_history = True

    def execute(self, run):
        if run.get("history") and not run.get("_child"):
            # replay of a history-dependent finding: first what this worker
            # had executed before
            for h in run["history"]:
                self._execute(dict(h, _child=False))
        res = self._execute(run)
        if run["config"].get("xproc") and res["violation"] is None \
                and not run.get("_child"):
            res["violation"] = core.cross_process(self, run, res, "R4")
            res["probes"]["run re-executed in a fresh interpreter"] = 1
        return res

    def _execute(self, run):
        seams.install_curve_seams()
        seams.install_sim_model()
        seams.install_lmfit_determinism()
        from nanite.fit import FP_DEFAULT
        cfg = run["config"]["curve"]
        # the plateau scan of the default settings makes 100 fits; keep the
        # runs short by bounding it (a tuning knob, randomised per run by
        # the ops themselves)
        seams.snapshot_globals()
        seams.restore_globals()
        idnt = curves.make_curve(cfg)
        FRESH_MEMO.clear()
        FRESH_OBJ_MEMO.clear()
        log = []
        probes = core.collections.Counter()
        faults = core.collections.Counter()
        states = set()
        violation = None
        nontrivial = False
        had_result = False
        oracle_checks = 0
        executed = 0
        for i, op in enumerate(run["ops"]):
            # keep plateau scans bounded (default 100 samples)
            had_hash = "hash" in idnt.fit_properties
            outcome = apply_op(idnt, op)
            executed += 1
            ob = observe(idnt)
            log.append({"i": i, "op": op["op"], "out": outcome,
                        "obs": core.digest(ob)})
            states.add(abstract_state(idnt))
            if outcome.get("fired"):
                f = outcome["fired"]
                faults[f"{f['seam']}:{f['exc']}"] += 1
                probes["op raised by injected fault"] += 1
                if f["seam"] == "minimize" and f["at"] > 1:
                    probes["fault fired inside multi-pass/plateau fit"] += 1
            if not outcome.get("ok") and not outcome.get("injected"):
                probes["op rejected (invalid call)"] += 1
            if had_result and op["op"] in ("prep", "fit", "setfp", "getinit",
                                           "nudge", "retype"):
                nontrivial = True
            if op["op"] == "nudge" and outcome.get("ok"):
                probes["tiny change of a numeric setting"] += 1
            if op["op"] == "fit" and "preprocessing" in op.get("kw", {}):
                probes["fit call carrying a pipeline"] += 1
            if had_hash and "hash" not in idnt.fit_properties:
                probes["fit invalidated"] += 1
            if (not had_hash and "hash" in idnt.fit_properties
                    and had_result):
                probes["refit after invalidation"] += 1
            if "hash" in idnt.fit_properties:
                had_result = True
                if idnt.fit_properties.get("success") is False:
                    probes["unsuccessful fit claimed"] += 1
                if idnt.fit_properties.get("optimal_fit_edelta"):
                    probes["plateau-search fit claimed"] += 1
                if idnt.fit_properties.get("range_type") == "relative cp":
                    probes["relative-cp fit claimed"] += 1
                if idnt.fit_properties.get("gcf_k", 1) != 1:
                    probes["fit with gcf_k != 1 claimed"] += 1
            g = seams.changed_global()
            if g is not None:
                violation = make_violation(
                    self.prop, "R1", f"shared-defaults-modified:{g}",
                    settings_features(idnt, op, outcome),
                    f"the operation modified the module-level table {g}: "
                    f"later curves in this process would see other defaults",
                    i)
                break
            violation = check_r1(self.prop, idnt, cfg, op, outcome, i)
            oracle_checks += 1
            if violation is None:
                violation = check_r2(self.prop, idnt, op, outcome, i)
                oracle_checks += 1
            if violation is None and op["op"] == "fit" and \
                    outcome.get("ok") and "hash" in idnt.fit_properties \
                    and "params_initial" not in op.get("kw", {}):
                # R2b: the very same call again (also with the segment
                # given by name instead of number): no optimisation,
                # nothing changes. (Calls that pass params_initial are left
                # out: None means "forget my parameters", and a parameter
                # spec is re-evaluated against the stored ones.)
                again = {"op": "fit", "kw": copy.deepcopy(op.get("kw", {}))}
                seg = again["kw"].get("segment")
                if seg in (0, 1) and not isinstance(seg, bool) \
                        and i % 2 == 0:
                    again["kw"]["segment"] = ["approach", "retract"][seg]
                elif seg in ("approach", "retract") and i % 2 == 0:
                    again["kw"]["segment"] = ["approach",
                                              "retract"].index(seg)
                before = observe(idnt)
                o2 = apply_op(idnt, again)
                oracle_checks += 1
                feats2 = settings_features(idnt, op, outcome)
                feats2["segment_form"] = str(type(
                    again["kw"].get("segment")).__name__)
                if o2.get("minimize_calls"):
                    violation = make_violation(
                        self.prop, "R2", "same-call-reoptimised", feats2,
                        f"repeating fit_model({again['kw']}) with unchanged "
                        f"settings made {o2['minimize_calls']} optimiser "
                        f"calls", i)
                elif o2.get("ok") and observe(idnt) != before:
                    violation = make_violation(
                        self.prop, "R2", "same-call-changed", feats2,
                        "repeating the identical fit_model call changed "
                        "the object", i)
            if violation is not None:
                break
        return {"violation": violation, "log_digest": core.digest(log),
                "log": log,
                "probes": dict(probes), "faults": dict(faults),
                "states": sorted(states), "nontrivial": nontrivial,
                "oracle_checks": oracle_checks, "ops_executed": executed}

    def simplify_op(self, op):
        """Candidate simplifications of one op (for minimisation)."""
        if "fault" in op:
            o = dict(op)
            o.pop("fault")
            yield o
        if op["op"] == "fit" and op.get("kw"):
            for k in sorted(op["kw"]):
                o = copy.deepcopy(op)
                o["kw"].pop(k)
                yield o
        if op["op"] == "prep":
            if op.get("options"):
                o = copy.deepcopy(op)
                o["options"] = None
                yield o
            if op.get("route") != "apply":
                o = copy.deepcopy(op)
                o["route"] = "apply"
                yield o


# ==========================================================================
# C06: preprocessing is a pure, repeatable function
# ==========================================================================
def clone_curve(idnt, cfg):
    """Independent copy of a curve object in its current state.

    copy.deepcopy is not faithful here (dict-subclass reconstruction goes
    through FitProperties.__setitem__, which resets keys), so the clone is
    rebuilt from a fresh curve; fidelity is asserted by the caller."""
    c = curves.make_curve(cfg)
    for k, v in idnt._data.items():
        c[k] = np.array(v, copy=True)
    c.fit_properties.restore(copy.deepcopy(dict(idnt.fit_properties)))
    c.preprocessing = copy.deepcopy(idnt.preprocessing)
    c.preprocessing_options = copy.deepcopy(idnt.preprocessing_options)
    c._preprocessing_details = copy.deepcopy(idnt._preprocessing_details)
    c._rating = copy.deepcopy(idnt._rating)
    return c


def data_cols(ob):
    return {c: d for c, d in ob["cols"].items() if c not in FIT_COLS}


REQ_MEMO = {}


def fresh_request(cfg, steps, options):
    """What a fresh curve does with the request: (accepted, exc class,
    data columns)."""
    key = core.digest([cfg, steps, options])
    if key in REQ_MEMO:
        return REQ_MEMO[key]
    f = curves.make_curve(cfg)
    PLAN.disarm()
    with warnings.catch_warnings():
        warnings.simplefilter("ignore")
        try:
            f.apply_preprocessing(copy.deepcopy(steps),
                                  copy.deepcopy(options))
            res = (True, None, data_cols(observe(f, False)))
        except _caught() as e:
            res = (False, type(e).__name__, None)
    REQ_MEMO[key] = res
    return res


def effective_request(idnt, op):
    steps = op["steps"]
    options = op.get("options")
    if options is None:
        options = copy.deepcopy(idnt.preprocessing_options)
    return copy.deepcopy(steps), options


def request_remembered(idnt, steps, options, route):
    """Is (steps, options) what the curve reports as applied?"""
    fp = idnt.fit_properties
    if "preprocessing" in fp and fp["preprocessing"] == steps and \
            fp.get("preprocessing_options", {}) == options:
        return "fit_properties"
    return None


def check_request(prop, idnt, cfg, op, outcome, i, steps, options,
                  was_faulted, probes, pre_attr=None):
    """P1, P3, P4, P5 for one preprocessing request that was just issued.
    `steps, options` is the effective request."""
    route = op.get("route", "apply")
    feats = {"route": route, "faulted": bool(was_faulted),
             "fired": bool(outcome.get("fired")),
             "fired_phase": (outcome.get("fired") or {}).get("phase"),
             "n_steps": len(steps)}
    acc, fexc, fcols = fresh_request(cfg, steps, options)
    feats["fresh_accepts"] = acc
    # was the request rejected, i.e. did the exception leave
    # apply_preprocessing?
    rejected = outcome["apply_calls"] > outcome["apply_returned"]
    feats["rejected"] = rejected
    # P3 raw data
    rd = curves.raw_digest(cfg)
    for c, a in idnt._raw_data.items():
        if digest_array(np.asarray(a)) != rd.get(c):
            return make_violation(prop, "P3", f"raw:{c}", feats,
                                  f"recorded raw column {c!r} was modified",
                                  i)
    if set(idnt._raw_data) != set(rd):
        return make_violation(prop, "P3", "raw:columns", feats,
                              "set of recorded raw columns changed", i)
    if not rejected:
        if outcome["apply_calls"] == 0:
            return None
        if not acc:
            return make_violation(
                prop, "P4", "accepted-invalid", feats,
                f"request {steps} / {options} was accepted although a fresh "
                f"curve rejects it with {fexc}", i)
        ob = data_cols(observe(idnt, False))
        for c in sorted(set(ob) | set(fcols)):
            if ob.get(c) != fcols.get(c):
                return make_violation(
                    prop, "P1", f"col:{c}", feats,
                    f"column {c!r} after the accepted request differs from a "
                    f"fresh curve given the same steps and options", i)
        probes["accepted request checked against fresh curve"] += 1
        return None
    # rejected ------------------------------------------------------------
    if acc and not outcome.get("fired"):
        return make_violation(
            prop, "P5", "valid-rejected", feats,
            f"request {steps} / {options} raised "
            f"{outcome.get('exc')}: {outcome.get('msg')} although no fault "
            f"was injected and a fresh curve accepts it", i)
    where = request_remembered(idnt, steps, options, route)
    # the attributes count only if the *library* wrote the rejected request
    # into them during this call (the user may have set them before)
    # (not with a shared options dict: if the user assigned that very
    # object to the attribute earlier, the in-place edit shows there)
    if where is None and route not in ("attr", "attr_inplace") and \
            pre_attr is not None and \
            not op.get("shared_options") and \
            idnt.preprocessing == steps and \
            idnt.preprocessing_options == options and \
            pre_attr != [steps, options]:
        where = "attribute"
    if where is not None:
        return make_violation(
            prop, "P4", f"remembered:{where}", feats,
            f"request {steps} / {options} raised {outcome.get('exc')} but "
            f"the curve reports it as applied ({where})", i)
    probes["rejected request not remembered"] += 1
    return None


class CurveEngineC06:
    prop = "C06"
    components = COMPONENTS
    assumptions = [
        "a request is *rejected* iff its exception leaves "
        "apply_preprocessing (a fault in the fit part of "
        "fit_model(preprocessing=...) leaves an accepted request "
        "legitimately remembered)",
        "reference = a fresh curve given the same effective (steps, "
        "options); options=None means the curve's current default options",
        "raw data are read through afmformats' _raw_data mapping",
        "clones used for enumerated fault positions are rebuilt from the "
        "object's public state and asserted observation-equal",
    ]
    rule_text = (
        "seeded histories of 3-14 preprocessing requests (valid pipelines "
        "over all 6 steps and option values, invalid: unknown step, missing "
        "prerequisite, bad option) through 4 routes (apply_preprocessing, "
        "ret_details, fit_model(preprocessing=), attribute+apply), "
        "interleaved with fits/edits/ratings; transient faults on the main "
        "line and, for flagged requests, at EVERY seam call of the request "
        "on a clone (fail, check, retry). Oracles P1-P5 after every request. "
        "distinct = op-list digest; non-trivial = at least two requests, "
        "the later one issued on an object that already saw a request")

    MAPCURVES = [{"kind": "recorded",
                  "file": "fmt-jpk-fd_map2x2_extracted.jpk-force-map",
                  "enum": k} for k in range(4)]

    def generate(self, rng, tier, index):
        cfg = curves.gen_curve_cfg(rng, allow_recorded=rng.random() < 0.5)
        if rng.random() < 0.15:
            cfg = rng.choice(self.MAPCURVES)
        swarm = {"faults": rng.random() < 0.5,
                 "invalid": rng.random() < 0.7,
                 "enum": rng.random() < 0.6,
                 "other_ops": rng.random() < 0.6}
        nops = rng.choice([3, 4, 5, 6, 8, 10] if tier == "quick"
                          else [3, 5, 8, 10, 14])
        ops = []
        recent = []
        while len(ops) < nops:
            r = rng.random()
            if swarm["other_ops"] and r < 0.25:
                k = rng.random()
                if k < 0.6:
                    kw = gen_fit_kw(rng, nkeys=rng.choice([0, 1, 2]))
                    kw.pop("optimal_fit_edelta", None)
                    ops.append({"op": "fit", "kw": kw})
                elif k < 0.8:
                    ops.append(gen_setfp(rng))
                else:
                    ops.append({"op": "rate", "kw": {"regressor":
                                rng.choice(["none", "Decision Tree"])}})
                continue
            if rng.random() < 0.12:
                oc = rng.choice(self.MAPCURVES) if rng.random() < 0.6 \
                    else curves.gen_curve_cfg(rng)
                st = gen_pipeline(rng, full_bias=0.2)
                if rng.random() < 0.6 and "smooth_height" not in st:
                    st.append("smooth_height")
                ops.append({"op": "other", "curve": oc, "steps": st,
                            "options": gen_options(rng, st)})
                continue
            if recent and rng.random() < 0.3:
                # repeat an earlier request (skip-if-unchanged path, retry
                # after failure)
                base = copy.deepcopy(rng.choice(recent))
                base.pop("fault", None)
                base.pop("enum_faults", None)
                base["route"] = rng.choice(["apply", "apply", "fit_kw",
                                            "attr", "details",
                                            "attr_inplace"])
                if rng.random() < 0.4 and len(base["steps"]) > 1:
                    # same step set, other legal order: another pipeline
                    if ops and ops[-1].get("steps") != base["steps"]:
                        ops.append(copy.deepcopy(base))
                    base["steps"] = legal_permutation(rng, base["steps"])
                ops.append(base)
                continue
            was_invalid = False
            if swarm["invalid"] and rng.random() < 0.3:
                steps, options = gen_invalid_request(rng)
                was_invalid = True
            elif rng.random() < 0.12:
                # the empty pipeline, explicitly
                steps, options = [], rng.choice([None, {}])
            else:
                steps = gen_pipeline(rng, full_bias=0.3)
                options = gen_options(rng, steps)
            op = {"op": "prep",
                  "route": rng.choice(["apply", "apply", "fit_kw", "attr",
                                       "details", "attr_inplace"]),
                  "steps": steps, "options": options}
            if options is not None and rng.random() < 0.25:
                op["shared_options"] = True
                if options.get("correct_tip_offset") and \
                        rng.random() < 0.7:
                    # ... and right away the same request with one nested
                    # option changed in place
                    ops.append(op)
                    recent.append(op)
                    op = copy.deepcopy(op)
                    op.pop("fault", None)
                    cur = op["options"]["correct_tip_offset"].get("method")
                    op["options"]["correct_tip_offset"]["method"] = \
                        rng.choice([m for m in POC_METHODS[:1]
                                    + POC_METHODS[4:] if m != cur])
                    op["route"] = rng.choice(["apply", "fit_kw"])
            if not was_invalid and recent and rng.random() < 0.15 and \
                    recent[-1]["steps"] != steps:
                # the pipeline is changed in a fit_model call whose other
                # settings the fitter refuses; afterwards the earlier
                # pipeline is requested again
                op["route"] = "fit_kw"
                op["fit_extra"] = rng.choice([
                    {"range_type": "nonsense"},
                    {"range_x": [0, 1e-6, 2e-6]},
                    {"model_key": "no_such_model"},
                    {"x_axis": "no such column"},
                    {"segment": 1.5},
                    {"optimal_fit_edelta": True, "range_x": [1e-6, 2e-6]}])
                ops.append(op)
                recent.append(op)
                op = copy.deepcopy(recent[-2])
                for k_ in ("fault", "enum_faults", "fit_extra"):
                    op.pop(k_, None)
                op["route"] = rng.choice(["apply", "fit_kw", "details"])
                ops.append(op)
                continue
            if was_invalid and recent and rng.random() < 0.3:
                # a rejected request, a plain fit (no pipeline given), and
                # the last good pipeline again
                ops.append(op)
                ops.append({"op": "fit", "kw": {}})
                again = copy.deepcopy(recent[-1])
                for k_ in ("fault", "enum_faults", "fit_extra",
                           "shared_options"):
                    again.pop(k_, None)
                again["route"] = rng.choice(["apply", "fit_kw", "details"])
                ops.append(again)
                recent.append(op)
                continue
            if was_invalid and rng.random() < 0.4:
                # what a user does next: fit on another axis (records the
                # default, empty pipeline), then ask for the raw data
                ops.append(op)
                recent.append(op)
                ops.append({"op": "fit", "kw": {"x_axis":
                                                "height (measured)"}})
                ops.append({"op": "prep", "route": "apply", "steps": [],
                            "options": rng.choice([None, {}])})
                continue
            if swarm["faults"] and rng.random() < 0.3:
                op["fault"] = {
                    "seam": rng.choice(["poc", "poc", "poc_dfb", "smooth",
                                        "turning", "slopefit"]),
                    "at": rng.randint(1, 3),
                    "exc": rng.choice(["RuntimeError", "MemoryError"])}
            elif swarm["enum"] and rng.random() < 0.5:
                op["enum_faults"] = True
            ops.append(op)
            recent.append(op)
        xproc = index % 8 == 5
        if xproc:
            # other curves (recorded map curves need wide smoothing windows)
            # are processed before and between the main curve's requests
            warm = []
            for oc in rng.sample(self.MAPCURVES, 3):
                st = ["compute_tip_position", "correct_tip_offset",
                      "smooth_height"]
                if rng.random() < 0.5:
                    st.insert(2, "correct_split_approach_retract")
                warm.append({"op": "other", "curve": oc, "steps": st,
                             "options": None})
            ops = warm[:2] + ops[:1] + warm[2:] + ops[1:]
            if rng.random() < 0.7:
                st = gen_pipeline(rng, full_bias=0.2)
                if "smooth_height" not in st:
                    st.append("smooth_height")
                ops.append({"op": "prep", "route": "apply", "steps": st,
                            "options": gen_options(rng, st)})
        # two directed openings, chosen by the run index alone (no draw from
        # the generator: every other run stays what it was)
        std = ["compute_tip_position", "correct_force_offset",
               "correct_tip_offset"]
        if index % 9 == 4:
            # a file that brings its own tip position, made monotonic and
            # then processed the usual way
            cfg = {"kind": "synthetic", "model": "hertz_para", "n": 400,
                   "E": 3000.0, "cp": 0.0, "baseline": 0.0, "noise": 0.001,
                   "seed": 1 + index % 97, "innate_tip": True,
                   "tip_noise": 3e-9}
            ops = [{"op": "prep", "route": "apply", "options": {},
                    "steps": ["compute_tip_position", "smooth_height"]},
                   {"op": "prep", "route": "apply", "options": None,
                    "steps": list(std)}] + ops
        elif index % 9 == 7:
            # the same steps, once with the slope correction's defaults and
            # once with its other strategy / region spelled out
            S_ = std + ["correct_force_slope"]
            a_ = {"op": "prep", "route": "apply", "steps": S_,
                  "options": {}}
            b_ = {"op": "prep", "route": "apply", "steps": list(S_),
                  "options": {"correct_force_slope": [
                      {"strategy": "drift"}, {"strategy": "shift"},
                      {"region": "all"}, {"region": "baseline"}][
                          (index // 9) % 4]}}
            ops = ([a_, b_] if (index // 9) % 2 else [b_, a_]) + ops
        elif index % 9 == 1:
            # recorded curves on which segment discovery gives up unless
            # the drift of the whole curve was removed first: give-up
            # pipeline, drift pipeline, give-up pipeline again (what a step
            # learned about the curve in one pipeline must not reach the
            # next). The run consists of these requests only.
            cfg = {"kind": "recorded", "enum": 0,
                   "file": "fmt-jpk-fd_single_bad_2017-01-16_%d.jpk-force"
                           % (3 + (index // 9) % 2)}
            A_ = ["compute_tip_position", "correct_tip_offset",
                  "correct_split_approach_retract"]
            B_ = ["compute_tip_position", "correct_tip_offset",
                  "correct_force_slope", "correct_split_approach_retract",
                  "correct_force_offset"]
            ob_ = {"correct_force_slope": {"region": "all",
                                           "strategy": "drift"}}
            rt_ = ["apply", "fit_kw", "details"][(index // 18) % 3]
            ops = [{"op": "prep", "route": "apply", "steps": list(A_),
                    "options": {}},
                   {"op": "prep", "route": rt_, "steps": list(B_),
                    "options": copy.deepcopy(ob_)},
                   {"op": "prep", "route": "apply", "steps": list(A_),
                    "options": {}},
                   {"op": "prep", "route": "apply", "steps": list(B_),
                    "options": copy.deepcopy(ob_)}]
            xproc = False
        return {"config": {"curve": cfg, "swarm": swarm, "xproc": xproc},
                "ops": ops}

    track_history = True

    def execute(self, run):
        if run.get("history") and not run.get("_child"):
            for h in run["history"]:
                self._execute(dict(h, _child=False))
        res = self._execute(run)
        if run["config"].get("xproc") and res["violation"] is None \
                and not run.get("_child"):
            res["violation"] = core.cross_process(self, run, res, "P6",
                                                  "columns/outcomes")
            res["probes"]["run re-executed in a fresh interpreter"] = 1
        return res

    def _execute(self, run):
        seams.install_curve_seams()
        seams.install_sim_model()
        seams.install_lmfit_determinism()
        cfg = run["config"]["curve"]
        idnt = curves.make_curve(cfg)
        REQ_MEMO.clear()
        log = []
        probes = core.collections.Counter()
        faults = core.collections.Counter()
        states = set()
        violation = None
        nreq = 0
        nontrivial = False
        oracle_checks = 0
        executed = 0
        for i, op in enumerate(run["ops"]):
            if op["op"] == "other":
                # another curve is preprocessed in the same process (state
                # that leaks between objects would show in later requests).
                # The fresh-interpreter twin of a run skips these ops: the
                # main curve's results must not depend on them.
                if run.get("_child"):
                    continue
                oc = curves.make_curve(op["curve"])
                o2 = apply_op(oc, {"op": "prep", "route": "apply",
                                   "steps": op["steps"],
                                   "options": op.get("options")})
                log.append({"i": i, "op": "other", "ok": o2.get("ok"),
                            "obs": core.digest(observe(oc))})
                probes["other curve preprocessed in between"] += 1
                continue
            if op["op"] != "prep":
                outcome = apply_op(idnt, op)
                executed += 1
                log.append({"i": i, "op": op["op"], "out": outcome,
                            "obs": core.digest(observe(idnt))})
                continue
            steps, options = effective_request(idnt, op)
            # ---- enumerated fault positions on clones -------------------
            if op.get("enum_faults"):
                violation = self.enumerate_faults(idnt, cfg, op, steps,
                                                  options, i, probes, faults)
                oracle_checks += 1
                if violation is not None:
                    break
            # ---- main line ----------------------------------------------
            pre_attr = [copy.deepcopy(idnt.preprocessing),
                        copy.deepcopy(idnt.preprocessing_options)]
            outcome = apply_op(idnt, op)
            executed += 1
            nreq += 1
            if nreq >= 2:
                nontrivial = True
            if outcome.get("fired"):
                f = outcome["fired"]
                faults[f"{f['seam']}:{f['exc']}"] += 1
                probes[f"fault fired in phase {f['phase']}"] += 1
            log.append({"i": i, "op": "prep", "out": outcome,
                        "obs": core.digest(observe(idnt))})
            violation = check_request(self.prop, idnt, cfg, op, outcome, i,
                                      steps, options, "fault" in op, probes,
                                      pre_attr)
            oracle_checks += 1
            if violation is not None:
                break
            rejected = outcome["apply_calls"] > outcome["apply_returned"]
            acc, fexc, _ = fresh_request(cfg, steps, options)
            states.add(core.digest([steps, options, rejected, acc,
                                    "hash" in idnt.fit_properties]))
            if rejected and not acc:
                # P4: deterministically invalid request repeated
                probes["rejected request repeated"] += 1
                again = apply_op(idnt, {"op": "prep", "route": "apply",
                                        "steps": steps, "options": options})
                rej2 = again["apply_calls"] > again["apply_returned"]
                if not rej2:
                    violation = make_violation(
                        self.prop, "P4", "repeat-accepted",
                        {"route": op.get("route"), "fresh_exc": fexc},
                        f"invalid request {steps} / {options} is accepted "
                        f"when repeated", i)
                    break
                if again.get("exc") != fexc:
                    violation = make_violation(
                        self.prop, "P4", "repeat-other-error",
                        {"route": op.get("route"), "fresh_exc": fexc,
                         "exc": again.get("exc")},
                        f"invalid request {steps} / {options}: repeated "
                        f"request raised {again.get('exc')}, a fresh curve "
                        f"raises {fexc}", i)
                    break
            elif not rejected and outcome["apply_calls"]:
                # P2: re-issuing the accepted request changes nothing
                before = observe(idnt)
                again = apply_op(idnt, {"op": "prep", "route": "apply",
                                        "steps": steps, "options": options})
                after = observe(idnt)
                oracle_checks += 1
                if not again.get("ok") or before != after:
                    site = "raised" if not again.get("ok") else "changed"
                    if site == "changed":
                        for part in ("cols", "fp", "rating",
                                     "preprocessing",
                                     "preprocessing_options"):
                            if before[part] != after[part]:
                                site = f"changed:{part}"
                                break
                    violation = make_violation(
                        self.prop, "P2", site,
                        {"route": op.get("route")},
                        f"re-applying the accepted request {steps} / "
                        f"{options} {site}", i)
                    break
                probes["accepted request re-applied"] += 1
        return {"violation": violation,
                "log_digest": core.digest([e for e in log
                                           if e.get("op") != "other"]),
                "log": log, "probes": dict(probes), "faults": dict(faults),
                "states": sorted(states), "nontrivial": nontrivial,
                "oracle_checks": oracle_checks, "ops_executed": executed}

    def enumerate_faults(self, idnt, cfg, op, steps, options, i, probes,
                         faults):
        """Fault at every seam call of this request, each on its own clone:
        fail once, check, retry without fault, check."""
        base = clone_curve(idnt, cfg)
        if observe(base) != observe(idnt):
            raise core.HarnessError("clone is not observation-equal")
        # count the seam calls this request makes (on a clone)
        probe_op = {k: v for k, v in op.items()
                    if k not in ("fault", "enum_faults", "shared_options")}
        PLAN.disarm()
        c0 = dict(PLAN.total)
        out0 = apply_op(base, probe_op)
        counts = {s: PLAN.total[s] - c0.get(s, 0)
                  for s in ("poc", "poc_dfb", "smooth", "turning",
                            "slopefit")}
        for seam, n in sorted(counts.items()):
            for at in range(1, n + 1):
                cl = clone_curve(idnt, cfg)
                pre_attr = [copy.deepcopy(cl.preprocessing),
                            copy.deepcopy(cl.preprocessing_options)]
                fop = dict(probe_op)
                fop["fault"] = {"seam": seam, "at": at,
                                "exc": "RuntimeError" if at % 2 else
                                "MemoryError"}
                out = apply_op(cl, fop)
                if not out.get("fired"):
                    continue
                f = out["fired"]
                faults[f"enum:{seam}:{f['exc']}"] += 1
                probes["enumerated fault position"] += 1
                v = check_request(self.prop, cl, cfg, fop, out, i, steps,
                                  options, True, probes, pre_attr)
                if v is not None:
                    v["features"]["enum_seam"] = seam
                    v["features"]["enum_at"] = at
                    return v
                # retry without fault: P5 + P1
                out2 = apply_op(cl, probe_op)
                v = check_request(self.prop, cl, cfg, probe_op, out2, i,
                                  steps, options, False, probes)
                if v is not None:
                    v["features"]["enum_seam"] = seam
                    v["features"]["enum_at"] = at
                    v["features"]["retry"] = True
                    v["site"] = v["site"] + ":retry"
                    return v
                probes["retry after transient failure accepted"] += 1
        return None

    def simplify_op(self, op):
        for k in ("fault", "enum_faults"):
            if k in op:
                o = dict(op)
                o.pop(k)
                yield o
        if op["op"] == "prep":
            if op.get("options"):
                o = copy.deepcopy(op)
                o["options"] = None
                yield o
            if op.get("route") != "apply":
                o = copy.deepcopy(op)
                o["route"] = "apply"
                yield o
            if len(op["steps"]) > 1:
                for j in range(len(op["steps"])):
                    o = copy.deepcopy(op)
                    o["steps"].pop(j)
                    yield o
        if op["op"] == "fit" and op.get("kw"):
            for k in sorted(op["kw"]):
                o = copy.deepcopy(op)
                o["kw"].pop(k)
                yield o


# ==========================================================================
# C09: rating is total, deterministic, in range, tied to the current fit
# ==========================================================================
REGRESSORS = ["AdaBoost", "Decision Tree", "Extra Trees",
              "Gradient Tree Boosting", "Random Forest",
              "SVR (RBF kernel)", "SVR (linear kernel)"]
RANGE_CHECKED = ["Decision Tree", "Extra Trees", "Random Forest"]
CON_FEATURES = ["feat_con_apr_flatness", "feat_con_apr_size",
                "feat_con_apr_sum", "feat_con_bln_slope",
                "feat_con_bln_variation", "feat_con_cp_curvature",
                "feat_con_cp_magnitude", "feat_con_idt_maxima_75perc",
                "feat_con_idt_monotony", "feat_con_idt_spike_area",
                "feat_con_idt_sum", "feat_con_idt_sum_75perc"]
BIN_FEATURES = ["feat_bin_apr_spikes_count", "feat_bin_cp_position",
                "feat_bin_size"]


def _zef18_path():
    from nanite.rate.rater import IndentationRater
    return IndentationRater.get_training_set_path("zef18")


def resolve_ts(name, names, scratch):
    """Symbolic training-set name -> what the caller passes. In-memory sets
    are a *new*, equal tuple on every call."""
    import pathlib
    import shutil
    from nanite.rate.rater import IndentationRater
    if name == "zef18":
        return "zef18"
    kind, which = name.split(":")
    src = pathlib.Path(_zef18_path())
    if which == "copy":
        d = scratch / "ts_copy"
        if not d.exists():
            shutil.copytree(src, d)
    elif which == "zef18":
        # a user directory that merely has the same base name as the
        # shipped label (different content: every third sample)
        d = scratch / "user_sets" / "zef18"
        if not d.exists():
            d.mkdir(parents=True)
            for f in sorted(src.glob("train_*.txt")):
                lines = f.read_text().splitlines()
                (d / f.name).write_text("\n".join(lines[1::3]) + "\n")
    elif which == "neg":
        # every third sample; the worst-rated samples are labelled
        # "-1 / invalid" (documented manual rating; they get no weight)
        d = scratch / "ts_neg"
        if not d.exists():
            d.mkdir()
            for f in sorted(src.glob("train_*.txt")):
                lines = f.read_text().splitlines()[::3]
                if f.name == "train_response.txt":
                    lines = ["-1.000000000000000000e+00"
                             if float(x) == 0 else x for x in lines]
                (d / f.name).write_text("\n".join(lines) + "\n")
    elif which == "inf":
        # every third sample; some entries of two features are infinite
        # (features whose finite values are far below the largest value of
        # the other features)
        d = scratch / "ts_inf"
        if not d.exists():
            d.mkdir()
            for f in sorted(src.glob("train_*.txt")):
                lines = f.read_text().splitlines()[::3]
                if f.name in ("train_feat_con_apr_flatness.txt",
                              "train_feat_con_idt_monotony.txt",
                              "train_feat_con_bln_slope.txt"):
                    for j in (3, 17, 40, 41):
                        if j < len(lines):
                            lines[j] = "inf" if j % 2 else "-inf"
                (d / f.name).write_text("\n".join(lines) + "\n")
    else:  # "small": every third sample
        d = scratch / "ts_small"
        if not d.exists():
            d.mkdir()
            for f in sorted(src.glob("train_*.txt")):
                lines = f.read_text().splitlines()
                (d / f.name).write_text("\n".join(lines[::3]) + "\n")
    if kind == "dir":
        return str(d) if which in ("copy", "zef18") else d   # str and Path
    X, y = IndentationRater.load_training_set(path=d, names=names)
    return (X, y)


def seams_reg_names():
    from nanite.rate.regressors import reg_dict
    return set(reg_dict)


def prep_state(idnt):
    """Remembered pipeline, with 'nothing remembered' equal to the empty
    pipeline (a fit fills in the defaults [] / {} without any preprocessing
    having happened)."""
    fp = idnt.fit_properties
    return enc([fp.get("preprocessing") or [],
                fp.get("preprocessing_options") or {}])


def rate_key(idnt, kw, tsname):
    fp = idnt.fit_properties
    h = fp["hash"] if (fp and "hash" in fp) else "none"
    n = kw.get("names")
    return [h, kw.get("regressor", "Extra Trees"), tsname,
            None if n is None else list(n), kw.get("lda")]


def gen_rate_kw(rng):
    kw = {}
    r = rng.random()
    if r < 0.1:
        kw["regressor"] = rng.choice(["none", "None", "NONE"])
    elif r < 0.75:
        kw["regressor"] = rng.choice(
            ["Extra Trees", "Decision Tree", "Random Forest",
             "Decision Tree", "Extra Trees", "Decision Tree",
             "Decision Tree", "Decision Tree", "SVR (linear kernel)"]
            + REGRESSORS)
    ts = rng.choice(["zef18", "zef18", "zef18", "dir:copy", "dir:small",
                     "mem:copy", "mem:small", "dir:zef18", "held:small",
                     "held:copy", "dir:inf", "dir:neg", "mem:neg"])
    if rng.random() < 0.35:
        k = rng.randint(2, 6)
        names = rng.sample(CON_FEATURES, k)
        if rng.random() < 0.5:
            names += rng.sample(BIN_FEATURES, rng.randint(1, 3))
        kw["names"] = names
    if rng.random() < 0.35:
        kw["lda"] = rng.choice([True, False, None])
    return kw, ts


class CurveEngineC09:
    prop = "C09"
    track_history = True
    components = COMPONENTS
    assumptions = [
        "a configuration is in the domain iff the standalone get_rater "
        "builds for it; out-of-domain calls may raise",
        "'successful current fit' = fit_properties holds 'hash' and "
        "success is True; in every other state the accepted values are -1, "
        "or 0 when the approach segment has fewer than 600 points (the only "
        "exclusion criterion that is defined without a fit)",
        "reference value = standalone IndentationRater (memoised per "
        "configuration) applied to a freshly built curve with the stored "
        "settings; rater construction at the nanite.indent.get_rater seam "
        "is memoised per configuration as well (construction is a "
        "deterministic function of the configuration)",
        "range [0, 10] is demanded for Extra Trees, Random Forest, Decision "
        "Tree only (measured: Gradient Boosting 10.19, linear SVR 14.2)",
        "cross-process clause: a sample of runs is re-executed in a fresh "
        "interpreter under another PYTHONHASHSEED inside the run itself",
    ]
    rule_text = (
        "seeded histories (3-12 ops) mixing preprocessing, fits (valid, "
        "unsuccessful, aborted by injected optimiser faults), setting edits "
        "and rate_quality over 7 regressors + 'none', 5 training-set forms "
        "(label, str dir, Path dir, fresh in-memory tuples), feature "
        "subsets/orders and LDA flags; rating requests that are aborted by "
        "an injected fault (rater construction or the rating itself, before "
        "or after) and then repeated; oracles Q1-Q8 after every rate call. "
        "distinct = op-list digest; non-trivial = a rate call issued in a "
        "state other than 'never touched' after at least one other rate or "
        "state change")

    def generate(self, rng, tier, index):
        cfg = curves.gen_curve_cfg(rng, allow_recorded=rng.random() < 0.3,
                                   big=rng.random() < 0.6)
        if rng.random() < 0.15:
            # recorded curves of poor quality (the rating must be total)
            cfg = {"kind": "recorded", "enum": 0, "file": rng.choice(
                ["fmt-jpk-fd_single_bad_2017-01-16_2.jpk-force",
                 "fmt-jpk-fd_single_bad_2017-01-16_3.jpk-force",
                 "fmt-jpk-fd_single_bad_2017-01-16_4.jpk-force",
                 "fmt-jpk-fd_single_bad_2017-01-16_5.jpk-force",
                 "fmt-jpk-fd_single_bad_GWAT_2017-10-17.jpk-force",
                 "fmt-jpk-fd_single_bad_bead10_2017-04-27.jpk-force",
                 "fmt-jpk-fd_single_bad_bead46_2017-04-20.jpk-force",
                 "fmt-jpk-fd_single_bad_bead7_2017-04-27.jpk-force"])}
        pullin = rng.random() < 0.08
        if pullin:
            # force that decreases after contact: the fit succeeds, several
            # features are +inf
            cfg = {"kind": "synthetic", "model": "hertz_para",
                   "n": rng.choice([700, 900]), "E": rng.choice(
                       [-3000.0, -300.0]), "cp": 0.0, "baseline": 0.0,
                   "noise": 0.001, "seed": rng.randrange(1, 1000)}
        swarm = {"faults": rng.random() < 0.4,
                 "invalid": rng.random() < 0.4,
                 "few_configs": rng.random() < 0.5}
        nops = rng.choice([3, 4, 6, 8, 10] if tier == "quick"
                          else [4, 6, 8, 10, 12])
        pool = [gen_rate_kw(rng) for _ in range(2 if swarm["few_configs"]
                                                else 4)]
        ops = []
        if rng.random() < 0.35:
            # rate the untouched curve first; often followed by a state
            # change that leaves the fit hash at 'none' and the same rating
            # request again
            kw, ts = rng.choice(pool)
            ops.append({"op": "rate", "kw": kw, "ts": ts})
            if rng.random() < 0.5:
                ops.append(gen_setfp(rng) if rng.random() < 0.6 else
                           {"op": "prep", "route": "apply",
                            "steps": gen_pipeline(rng), "options": None})
                ops.append({"op": "rate", "kw": copy.deepcopy(kw),
                            "ts": ts})
        if rng.random() < 0.85:
            ops.append({"op": "prep", "route": "apply",
                        "steps": ["compute_tip_position",
                                  "correct_force_offset",
                                  "correct_tip_offset"], "options": None})
            if rng.random() < 0.7:
                kw0 = gen_fit_kw(rng, nkeys=rng.choice([0, 0, 1]))
                if rng.random() < 0.25:
                    kw0["segment"] = rng.choice([1, "retract"])
                ops.append({"op": "fit", "kw": kw0})
        if rng.random() < 0.6:
            # the same request, a request that differs in exactly one entry
            # of the cache key, and the first one again
            kw, ts = copy.deepcopy(rng.choice(pool))
            kw2, ts2 = copy.deepcopy(kw), ts
            which = rng.choice(["lda", "lda", "names", "regressor", "ts"])
            if which == "lda":
                cur = kw.get("lda")
                kw2["lda"] = rng.choice([x for x in (None, False, True)
                                         if x is not cur])
                if rng.random() < 0.5:
                    kw["regressor"] = kw2["regressor"] = rng.choice(
                        ["SVR (linear kernel)", "SVR (RBF kernel)"])
            elif which == "names":
                if kw.get("names"):
                    kw2["names"] = list(reversed(kw["names"])) \
                        if rng.random() < 0.4 else kw["names"][:-1] + [
                            c for c in CON_FEATURES
                            if c not in kw["names"]][:1]
                else:
                    kw2["names"] = rng.sample(CON_FEATURES, 4)
            elif which == "regressor":
                kw2["regressor"] = rng.choice(
                    [r_ for r_ in REGRESSORS
                     if r_ != kw.get("regressor", "Extra Trees")])
            else:
                ts2 = rng.choice([t for t in ("zef18", "dir:small",
                                              "dir:zef18", "mem:small")
                                  if t != ts])
            ops.append({"op": "rate", "kw": kw, "ts": ts})
            ops.append({"op": "rate", "kw": kw2, "ts": ts2})
            ops.append({"op": "rate", "kw": copy.deepcopy(kw), "ts": ts})
        for kw, ts in pool:
            if ts.startswith("held:") and rng.random() < 0.7:
                # rate, edit the held training set in place, rate again
                # with the very same objects
                ops.append({"op": "rate", "kw": copy.deepcopy(kw),
                            "ts": ts})
                ops.append({"op": "mutate_ts", "ts": ts,
                            "col": rng.randrange(12),
                            "factor": rng.choice([1.5, 0.5, -1.0])})
                ops.append({"op": "rate", "kw": copy.deepcopy(kw),
                            "ts": ts})
        while len(ops) < nops:
            r = rng.random()
            if r < 0.45:
                kw, ts = rng.choice(pool) if rng.random() < 0.8 \
                    else gen_rate_kw(rng)
                kw = copy.deepcopy(kw)
                if "names" in kw and rng.random() < 0.2:
                    rng.shuffle(kw["names"])
                op = {"op": "rate", "kw": kw, "ts": ts}
                if swarm["faults"] and rng.random() < 0.35:
                    op["fault"] = {
                        "seam": rng.choice(["get_rater", "rater_rate"]),
                        "at": 1, "when": rng.choice(["before", "after"]),
                        "exc": rng.choice(["RuntimeError", "EIO",
                                           "KeyboardInterrupt",
                                           "MemoryError"])}
                ops.append(op)
            elif r < 0.47:
                # contact point fixed next to the edge of the data
                ops.append({"op": "fit", "kw": {"params_initial": {
                    "model": None, "edits": {},
                    "cp_edge": rng.choice([0.001, 0.002, 0.0005, 0.999,
                                           0.01, 1.0, 0.0])}}})
                kw, ts = rng.choice(pool)
                ops.append({"op": "rate", "kw": copy.deepcopy(kw),
                            "ts": ts})
            elif r < 0.485:
                # rate, refit with other values of the same optimiser
                # keywords, rate again with the same arguments
                kw, ts = rng.choice(pool)
                a, b = rng.sample([3, 5, 8, 300], 2)
                mk = rng.choice(["max_nfev", "max_nfev", "ftol"])
                va, vb = (a, b) if mk == "max_nfev" else (1e-2, 1e-12)
                ops.append({"op": "fit", "kw": {"method_kws": {mk: va}}})
                ops.append({"op": "rate", "kw": copy.deepcopy(kw),
                            "ts": ts})
                ops.append({"op": "fit", "kw": {"method_kws": {mk: vb}}})
                ops.append({"op": "rate", "kw": copy.deepcopy(kw),
                            "ts": ts})
            elif r < 0.5:
                # a multi-pass fit whose last pass has no points leaves the
                # parameters of the first pass behind while success is
                # False; rate it with a feature subset
                ops.append({"op": "fit", "kw": {
                    "range_type": "relative cp",
                    "range_x": rng.choice([[-1e-12, 1e-12], [-1e-12, 0]])}})
                kw = {"regressor": rng.choice(["Decision Tree",
                                               "Extra Trees"]),
                      "names": rng.sample(
                          ["feat_con_apr_size", "feat_con_cp_curvature",
                           "feat_con_idt_monotony", "feat_con_apr_sum",
                           "feat_con_bln_slope"], 3)}
                ops.append({"op": "rate", "kw": kw, "ts": "zef18"})
            elif r < 0.75:
                inv = swarm["invalid"] and rng.random() < 0.15
                kw = gen_fit_kw(rng, nkeys=rng.choice([0, 1, 1, 2]),
                                invalid=inv)
                if kw.get("optimal_fit_edelta"):
                    kw["optimal_fit_num_samples"] = 7
                op = {"op": "fit", "kw": kw}
                if swarm["faults"] and rng.random() < 0.3:
                    op["fault"] = gen_fault(rng, ["minimize"], 2)
                ops.append(op)
            elif r < 0.84:
                ops.append(gen_setfp(rng))
            elif r < 0.86:
                reg = rng.choice(["Extra Trees", "Decision Tree",
                                  "Random Forest"])
                ops.append({"op": "get_rater_kw", "regressor": reg,
                            "kw": rng.choice([{"max_depth": 3},
                                              {"min_samples_leaf": 20},
                                              {"random_state": 7}])})
            elif r < 0.88:
                ops.append({"op": "mutate_ts",
                            "ts": rng.choice(["held:small", "held:copy"]),
                            "col": rng.randrange(12),
                            "factor": rng.choice([1.5, 0.5, -1.0])})
            else:
                steps = gen_pipeline(rng)
                op = {"op": "prep",
                      "route": rng.choice(["apply", "fit_kw", "details"]),
                      "steps": steps, "options": gen_options(rng, steps)}
                if rng.random() < 0.4:
                    # the standard pipeline again, e.g. to look at its
                    # details after a fit
                    op["steps"] = ["compute_tip_position",
                                   "correct_force_offset",
                                   "correct_tip_offset"]
                    op["options"] = None
                ops.append(op)
                if rng.random() < 0.5:
                    kw, ts = rng.choice(pool)
                    ops.append({"op": "rate", "kw": copy.deepcopy(kw),
                                "ts": ts})
        if rng.random() < 0.15:
            # a selection is rated, taken back from the rating parameters,
            # shortened in place and rated again
            kw_ = {"regressor": rng.choice(["Decision Tree", "Extra Trees"]),
                   "names": rng.sample(CON_FEATURES, 5)}
            ops.append({"op": "rate", "kw": kw_, "ts": "zef18"})
            ops.append({"op": "rate", "kw": copy.deepcopy(kw_),
                        "ts": "zef18", "edit_returned": rng.randrange(1, 5)})
        if rng.random() < 0.15:
            # a user directory is rated with, regenerated in place, and
            # rated with again
            kw_ = {"regressor": rng.choice(["Decision Tree", "Extra Trees"])}
            tsd = rng.choice(["dir:small", "dir:copy"])
            ops.append({"op": "rate", "kw": kw_, "ts": tsd})
            ops.append({"op": "rewrite_dir", "ts": tsd, "feature":
                        rng.choice(CON_FEATURES), "factor":
                        rng.choice([-1.0, 3.0])})
            if rng.random() < 0.5:
                ops.append({"op": "fit", "kw": {"weight_cp": 1e-6}})
            ops.append({"op": "rate", "kw": copy.deepcopy(kw_), "ts": tsd})
        if pullin:
            inf_feats = ["feat_con_apr_sum", "feat_con_idt_sum",
                         "feat_con_idt_sum_75perc", "feat_con_idt_spike_area",
                         "feat_con_idt_maxima_75perc"]
            ops[0:0] = [
                {"op": "prep", "route": "apply", "options": None,
                 "steps": ["compute_tip_position", "correct_force_offset",
                           "correct_tip_offset"]},
                {"op": "fit", "kw": {}},
                {"op": "rate", "ts": "zef18", "kw": {
                    "regressor": rng.choice(["Extra Trees", "Decision Tree",
                                             "SVR (RBF kernel)"]),
                    "names": rng.sample(inf_feats, rng.choice([1, 2, 3]))}}]
        if rng.random() < 0.12:
            # a state reachable by a setting edit: an axis that does not
            # exist is stored (the fit is refused), then the curve is rated
            ax = rng.choice(["x_axis", "y_axis"])
            pos = rng.randrange(1, len(ops) + 1)
            kw, ts = rng.choice(pool)
            blk = [{"op": "fit", "kw": {ax: "no such column"}}
                   if rng.random() < 0.6 else
                   {"op": "setfp", "key": ax, "value": "no such column"},
                   {"op": "rate", "kw": copy.deepcopy(kw), "ts": ts}]
            ops[pos:pos] = blk
        xproc = (index % 16 == 5)
        return {"config": {"curve": cfg, "swarm": swarm, "xproc": xproc},
                "ops": ops}

    def execute(self, run):
        seams.install_curve_seams()
        seams.install_sim_model()
        seams.install_lmfit_determinism()
        seams.install_rater_memo(RATERS)
        seams.snapshot_globals()
        if run.get("history") and not run.get("_child"):
            # replay of a finding that depends on what this worker executed
            # before
            for h in run["history"]:
                seams.restore_globals()
                with core.Scratch("c09") as scratch:
                    self._execute(h, scratch)
        seams.restore_globals()
        try:
            with core.Scratch("c09") as scratch:
                res = self._execute(run, scratch)
        finally:
            seams.restore_globals()
        if run["config"].get("xproc") and res["violation"] is None \
                and not run.get("_child"):
            res["violation"] = self.cross_process(run, res)
            res["probes"]["run re-executed in a fresh interpreter under "
                          "another hash seed"] = 1
        return res

    def cross_process(self, run, res):
        return core.cross_process(self, run, res, "Q6")

    def _execute(self, run, scratch):
        cfg = run["config"]["curve"]
        idnt = curves.make_curve(cfg)
        FRESH_MEMO.clear()
        FRESH_OBJ_MEMO.clear()
        log, rets = [], []
        probes = core.collections.Counter()
        faults = core.collections.Counter()
        states = set()
        violation = None
        nontrivial = False
        oracle_checks = 0
        executed = 0
        rewritten = set()    # directories regenerated in place
        ts_epoch = {}        # in-place edits of held training sets
        cache_ref = None     # key of the call that filled the cache
        prep_epoch = 0       # counts preprocessing changes
        changed = 0
        held = {}
        for i, op in enumerate(run["ops"]):
            if op["op"] == "get_rater_kw":
                # someone uses the public convenience constructor with own
                # regressor keywords; later ratings must not be affected
                import nanite.rate
                try:
                    with warnings.catch_warnings():
                        warnings.simplefilter("ignore")
                        nanite.rate.get_rater(op["regressor"], **op["kw"])
                except _caught():
                    pass
                probes["get_rater called with own regressor keywords"] += 1
                g = seams.changed_global()
                if g is not None:
                    violation = make_violation(
                        self.prop, "Q6", f"shared-defaults-modified:{g}",
                        {"regressor": op["regressor"]},
                        f"get_rater({op['regressor']!r}, **{op['kw']}) "
                        f"modified the module-level table {g}: every later "
                        f"rating in this process uses other defaults", i)
                    break
                continue
            if op["op"] == "rewrite_dir":
                # the user regenerates a training set in the same directory
                d_ = resolve_ts(op["ts"], None, scratch)
                f_ = __import__("pathlib").Path(str(d_)) / \
                    f"train_{op['feature']}.txt"
                vals = np.loadtxt(str(f_), dtype=float) * op["factor"]
                np.savetxt(str(f_), vals)
                probes["training directory rewritten in place"] += 1
                # (whether the per-object cache of a curve that was rated
                # with this directory before has to notice is not said: the
                # live object is not asked about this directory again)
                rewritten.add(op["ts"])
                continue
            if op["op"] == "mutate_ts":
                for hk, (X, y) in held.items():
                    if hk[0] == op["ts"]:
                        X[:, op["col"] % X.shape[1]] *= op["factor"]
                        ts_epoch[hk[0]] = ts_epoch.get(hk[0], 0) + 1
                        probes["held training set edited in place"] += 1
                continue
            if op["op"] != "rate":
                before_prep = prep_state(idnt)
                outcome = apply_op(idnt, op)
                executed += 1
                changed += 1
                if outcome.get("fired"):
                    f = outcome["fired"]
                    faults[f"{f['seam']}:{f['exc']}"] += 1
                after_prep = prep_state(idnt)
                if after_prep != before_prep:
                    # the remembered pipeline changed: the cache must not
                    # survive this (a request equal to the remembered one is
                    # skipped and legitimately keeps the cache)
                    prep_epoch += 1
                log.append({"i": i, "op": op["op"], "out": outcome,
                            "obs": core.digest(observe_c09(idnt))})
                continue
            # ---- a rate call -------------------------------------------
            kw = copy.deepcopy(op.get("kw", {}))
            tsname = op.get("ts", "zef18")
            names = kw.get("names")
            if tsname in rewritten:
                # a curve object that never saw the directory before rates
                # with its new content
                fo_, err_ = build_fresh_obj(idnt, cfg)
                if err_ is not None or kw.get("regressor", "x").lower() \
                        == "none":
                    continue
                try:
                    ts_ = resolve_ts(tsname, names, scratch)
                    with warnings.catch_warnings():
                        warnings.simplefilter("ignore")
                        rr_ = REF_RATERS.get(
                            kw.get("regressor", "Extra Trees"), ts_, names,
                            kw.get("lda"))
                        hp_ = HARNESS_PIPES.get(
                            kw.get("regressor", "Extra Trees"), ts_, names,
                            kw.get("lda"))
                        from nanite.rate.features import \
                            IndentationFeatures as _IF
                        fb_ = np.asarray(_IF.compute_features(
                            fo_, names=rr_.names, which_type="binary"))
                        fc_ = np.asarray(_IF.compute_features(
                            fo_, names=rr_.names,
                            which_type=["continuous"]))
                        if np.any(fb_ == 0):
                            want = 0.0
                        elif not np.all(np.isfinite(fc_)):
                            want = -1.0
                        else:
                            # (the directory as the harness reads it)
                            want = float(hp_.predict(
                                np.atleast_2d(fc_))[0])
                except Exception:
                    continue
                fo2 = curves.make_curve(cfg)
                got = apply_op(fo_, {"op": "rate", "kw": dict(
                    kw, training_set=ts_)})
                oracle_checks += 1
                probes["fresh object rated with a regenerated "
                       "directory"] += 1
                if got.get("ok") and got.get("ret") not in (None, "nan") \
                        and float.fromhex(got["ret"]) != want:
                    violation = make_violation(
                        self.prop, "Q2", "fresh-object-directory",
                        {"regressor": kw.get("regressor", "Extra Trees"),
                         "ts": "dir"},
                        f"a fresh curve object rated with a training "
                        f"directory that was regenerated in place got "
                        f"{float.fromhex(got['ret'])!r}; a pipeline trained "
                        f"on the directory's current files gives {want!r}",
                        i)
                    break
                continue
            try:
                if tsname.startswith("held:"):
                    # the caller keeps one (X, y) tuple and passes the very
                    # same object every time (and may edit it in place)
                    hk = (tsname, None if names is None else tuple(names))
                    if hk not in held:
                        held[hk] = resolve_ts("mem:" + tsname[5:], names,
                                              scratch)
                    ts = held[hk]
                    ts_ref = copy.deepcopy(ts)
                else:
                    ts = resolve_ts(tsname, names, scratch)
                    ts_ref = resolve_ts(tsname, names, scratch)
            except Exception:
                # feature subset not loadable -> out of domain
                continue
            alias_names = False
            if op.get("edit_returned"):
                # the selection comes from the reported rating parameters,
                # edited in place
                got = idnt.get_rating_parameters()["Feature names"]
                if isinstance(got, list) and len(got) > 2:
                    got.pop(op["edit_returned"] % len(got))
                    names = kw["names"] = list(got)
                    alias_names = got
                    probes["selection taken from the rating parameters"] += 1
            call_kw = dict(kw, training_set=ts)
            if alias_names is not False:
                call_kw["names"] = alias_names
            feats = {"regressor": kw.get("regressor", "Extra Trees"),
                     "ts": tsname.split(":")[0], "names": names is not None,
                     "lda": kw.get("lda"),
                     "fp_empty": not bool(idnt.fit_properties),
                     "has_hash": "hash" in idnt.fit_properties,
                     "success": bool(idnt.fit_properties.get("success",
                                                             False))}
            key = rate_key(idnt, kw, tsname)
            # the training set is identified by value (equal arrays from a
            # new tuple are the same training set)
            key[2] = [str(x) for x in RaterMemo.ts_key(ts)]
            state_id = core.digest([feats, key[1:]])
            states.add(state_id)
            if changed and (feats["has_hash"] or not feats["fp_empty"]):
                nontrivial = True
            changed += 1
            # domain: can the standalone rater be built?
            reg = kw.get("regressor", "Extra Trees")
            in_domain = True
            ref_rater = None
            if reg.lower() != "none":
                try:
                    with warnings.catch_warnings():
                        warnings.simplefilter("ignore")
                        ref_rater = REF_RATERS.get(reg, ts_ref, names,
                                                   kw.get("lda"))
                except Exception:
                    in_domain = False
            if op.get("fault"):
                # the same request fails first (construction of the rater or
                # the rating itself is aborted); the request is then made
                # again and judged like any other
                fo = apply_op(idnt, {"op": "rate", "kw": call_kw,
                                     "_alias": tsname.startswith("held:"),
                                     "fault": op["fault"]})
                executed += 1
                if fo.get("fired"):
                    f = fo["fired"]
                    faults[f"{f['seam']}:{f['exc']}:{f['when']}"] += 1
                    probes["rating request aborted by an injected fault"] += 1
                if fo.get("ok") and fo["rater_constructions"]:
                    # (a library that absorbs the failure and answers is
                    # judged by the value of the repeated request)
                    cache_ref = (key, prep_epoch)
                log.append({"i": i, "op": "rate-faulted", "out": dict(fo),
                            "obs": core.digest(observe_c09(idnt))})
            outcome = apply_op(idnt, {"op": "rate", "kw": call_kw,
                                      "_alias": tsname.startswith("held:")
                                      or alias_names is not False})
            executed += 1
            logged = dict(outcome)
            log.append({"i": i, "op": "rate", "ts": tsname, "out": logged,
                        "obs": core.digest(observe_c09(idnt))})
            rets.append(outcome.get("ret", outcome.get("exc")))
            if not in_domain:
                probes["out-of-domain configuration"] += 1
                continue
            oracle_checks += 1
            # Q1 total
            if not outcome.get("ok"):
                violation = make_violation(
                    self.prop, "Q1", f"raises:{outcome.get('exc')}", feats,
                    f"rate_quality raised {outcome.get('exc')}: "
                    f"{outcome.get('msg')}", i)
                break
            val = float.fromhex(outcome["ret"]) if outcome["ret"] != "nan" \
                else float("nan")
            # Q3 'none'
            if reg.lower() == "none":
                probes["regressor 'none'"] += 1
                if val != -1:
                    violation = make_violation(
                        self.prop, "Q3", "none", feats,
                        f"regressor {reg!r} returned {val}, expected -1", i)
                    break
                continue
            # Q5 cache accounting
            constructed = outcome["rater_constructions"] > 0
            if constructed:
                cache_ref = (key, prep_epoch)
                probes["rating computed (rater requested)"] += 1
            else:
                probes["rating served from cache"] += 1
                if cache_ref is None or cache_ref != (key, prep_epoch):
                    what = "nothing filled the cache" if cache_ref is None \
                        else (f"cache was filled for {cache_ref[0]} at "
                              f"preprocessing epoch {cache_ref[1]}")
                    diff = "none"
                    if cache_ref is not None:
                        for nm, a, b in zip(["hash", "regressor",
                                             "training_set", "names", "lda"],
                                            cache_ref[0], key):
                            if a != b:
                                diff = nm
                                break
                        else:
                            diff = "preprocessing"
                    feats["changed"] = diff
                    violation = make_violation(
                        self.prop, "Q5", f"stale-cache:{diff}", feats,
                        f"a cached rating was returned for {key} although "
                        f"{what}", i)
                    break
            # Q2 value: (i) the statement's rule applied to the features of
            # a freshly rebuilt curve: a failed binary criterion gives 0,
            # else undefined features give -1, else the regressor's
            # prediction; (ii) what the standalone rater returns
            fitted = feats["has_hash"] and feats["success"]
            fresh, err = build_fresh_obj(idnt, cfg)
            if err is not None:
                if fitted:
                    violation = make_violation(
                        self.prop, "Q2", "fresh-raises", feats,
                        f"fresh copy with stored settings raises {err}", i)
                    break
                # unusable stored settings on an unfitted curve: only the
                # coarse rule applies
                napp = int(np.sum(np.asarray(idnt["segment"]) == 0))
                allowed = [-1.0] + ([0.0] if napp < 600 else [])
                if val not in allowed:
                    violation = make_violation(
                        self.prop, "Q2", "nofit-value", feats,
                        f"no successful current fit: returned {val}, "
                        f"allowed {allowed}", i)
                    break
                continue
            from nanite.rate.features import IndentationFeatures
            try:
                with warnings.catch_warnings():
                    warnings.simplefilter("ignore")
                    fbin = np.asarray(IndentationFeatures.compute_features(
                        fresh, names=ref_rater.names, which_type="binary"))
                    fcon = np.asarray(IndentationFeatures.compute_features(
                        fresh, names=ref_rater.names,
                        which_type=["continuous"]))
                    if np.any(fbin == 0):
                        exp, why = 0.0, "binary criterion failed -> 0"
                    elif not np.all(np.isfinite(fcon)):
                        exp, why = -1.0, "undefined feature -> -1"
                    else:
                        exp = float(ref_rater.pipeline.predict(
                            np.atleast_2d(fcon))[0])
                        why = "regressor prediction"
                    exp2 = float(ref_rater.rate(datasets=fresh)[0])
            except _caught() as e:
                # the live object answered; the same state on a fresh object
                # must be ratable as well ("total")
                violation = make_violation(
                    self.prop, "Q1", f"fresh-raises:{type(e).__name__}",
                    feats, f"rate_quality returned {val} but features / "
                    f"standalone rating of a freshly rebuilt curve in the "
                    f"same state raise {type(e).__name__}: {e}", i)
                break
            probes[why] += 1
            if fitted:
                probes["rated with a successful current fit"] += 1
            else:
                # independent of the feature code: without a successful
                # current fit the answer is -1, or 0 when the one exclusion
                # criterion that needs no fit (fewer than 600 approach
                # points) fails
                probes["rated without a successful current fit"] += 1
                napp = int(np.sum(np.asarray(idnt["segment"]) == 0))
                allowed = [-1.0] + ([0.0] if napp < 600 else [])
                if val not in allowed:
                    feats["expected_kind"] = "no successful fit"
                    violation = make_violation(
                        self.prop, "Q2", "nofit-value", feats,
                        f"no successful current fit (approach points "
                        f"{napp}): returned {val}, allowed {allowed}", i)
                    break
            feats["expected_kind"] = why.split(" ->")[0]
            if not (val == exp):
                violation = make_violation(
                    self.prop, "Q2", "value", feats,
                    f"rate_quality returned {val!r}; the features of a "
                    f"freshly rebuilt curve give {exp!r} ({why})", i)
                break
            if not (val == exp2):
                violation = make_violation(
                    self.prop, "Q2", "standalone", feats,
                    f"rate_quality returned {val!r}, the standalone rater "
                    f"on a fresh copy gives {exp2!r}", i)
                break
            # Q9: the same number from a pipeline the harness assembles
            # itself from scikit-learn and the documented rules
            if why == "regressor prediction" and \
                    reg in seams_reg_names():
                try:
                    with warnings.catch_warnings():
                        warnings.simplefilter("ignore")
                        hp = HARNESS_PIPES.get(reg, ts_ref, names,
                                               kw.get("lda"))
                        exp3 = float(hp.predict(np.atleast_2d(fcon))[0])
                except Exception:
                    hp = None
                if hp is not None:
                    probes["compared with harness-assembled pipeline"] += 1
                    if not (val == exp3):
                        feats["expected_kind"] = "harness pipeline"
                        violation = make_violation(
                            self.prop, "Q2", "harness-pipeline", feats,
                            f"rate_quality returned {val!r}; a scikit-learn "
                            f"pipeline assembled by the documented rules "
                            f"(regressor {reg}, lda={kw.get('lda')}) "
                            f"predicts {exp3!r}", i)
                        break
            # Q8: the reported rating parameters describe this rating
            rp = idnt.get_rating_parameters()
            exp_hash = idnt.fit_properties.get("hash", "none") \
                if idnt.fit_properties else "none"
            bad = None
            if rp["Rating"] != val and not (rp["Rating"] != rp["Rating"]
                                            and val != val):
                bad = ("Rating", rp["Rating"], val)
            elif rp["Regressor"] != reg:
                bad = ("Regressor", rp["Regressor"], reg)
            elif rp["Hash"] != exp_hash:
                bad = ("Hash", rp["Hash"], exp_hash)
            elif rp["Linear discriminant analysis"] != kw.get("lda"):
                bad = ("Linear discriminant analysis",
                       rp["Linear discriminant analysis"], kw.get("lda"))
            elif (rp["Feature names"] is None) != (names is None) or (
                    names is not None
                    and list(rp["Feature names"]) != list(names)):
                bad = ("Feature names", rp["Feature names"], names)
            if bad is not None:
                feats["field"] = bad[0]
                violation = make_violation(
                    self.prop, "Q8", f"rating-parameters:{bad[0]}", feats,
                    f"get_rating_parameters() reports {bad[0]} = "
                    f"{str(bad[1])[:80]!r} after a rating with "
                    f"{str(bad[2])[:80]!r}", i)
                break
            # Q7: a feature selection is a set - the same names in sorted
            # order give the same rating
            if names is not None and list(names) != sorted(names):
                kw7 = dict(kw, names=sorted(names))
                o7 = apply_op(idnt, {"op": "rate", "kw": dict(
                    kw7, training_set=ts_ref)})
                # put the cache back to the request under test
                apply_op(idnt, {"op": "rate", "kw": dict(
                    kw, training_set=ts), "_alias":
                    tsname.startswith("held:")})
                cache_ref = (key, prep_epoch)
                probes["same selection in another order"] += 1
                if o7.get("ret") != outcome.get("ret"):
                    violation = make_violation(
                        self.prop, "Q2", "names-order", feats,
                        f"names {names} rated {outcome.get('ret')}, the "
                        f"same selection sorted {o7.get('ret')} / "
                        f"{o7.get('exc')}", i)
                    break
            # Q4 range
            if reg in RANGE_CHECKED and not (val == -1 or 0 <= val <= 10):
                violation = make_violation(
                    self.prop, "Q4", "range", feats,
                    f"{reg} returned {val} outside [0, 10]", i)
                break
            # repeated call: identical value
            again = apply_op(idnt, {"op": "rate", "kw": dict(
                kw, training_set=ts if tsname.startswith("held:")
                else resolve_ts(tsname, names, scratch)),
                "_alias": tsname.startswith("held:")})
            if again.get("ret") != outcome.get("ret"):
                violation = make_violation(
                    self.prop, "Q2", "repeat", feats,
                    f"repeated call returned {again.get('ret')} / "
                    f"{again.get('exc')} after {outcome.get('ret')}", i)
                break
            if again["rater_constructions"]:
                cache_ref = (key, prep_epoch)
        return {"violation": violation, "log_digest": core.digest(log),
                "log": log, "rets": rets, "probes": dict(probes),
                "faults": dict(faults), "states": sorted(states),
                "nontrivial": nontrivial, "oracle_checks": oracle_checks,
                "ops_executed": executed}

    def simplify_op(self, op):
        if "fault" in op:
            o = dict(op)
            o.pop("fault")
            yield o
        if op["op"] in ("fit", "rate") and op.get("kw"):
            for k in sorted(op["kw"]):
                o = copy.deepcopy(op)
                o["kw"].pop(k)
                yield o
        if op["op"] == "rate" and op.get("ts", "zef18") != "zef18":
            o = copy.deepcopy(op)
            o["ts"] = "zef18"
            yield o


def observe_c09(idnt):
    """Observation without scratch paths (training-set paths are run
    private)."""
    ob = observe(idnt, with_rating=False)
    r = idnt._rating
    if r is not None:
        ob["rating"] = [enc(r[0]), enc(r[1]),
                        "ts", enc(r[3]), enc(r[4]), enc(r[5])]
    return ob


# ==========================================================================
# C10: arguments are taken by value (twin worlds)
# ==========================================================================
class SkipOp(Exception):
    pass


class Caller:
    """The simulated caller of one world. In the alias world it passes the
    very objects it holds (and holds the very objects it got back); in the
    value world it passes deep copies and copies what it gets back."""

    def __init__(self, alias):
        self.alias = alias
        self.slots = {}

    def arg(self, ref, idnt=None, kw_model=None):
        if isinstance(ref, dict) and "slot" in ref:
            if ref["slot"] not in self.slots:
                raise SkipOp()
            obj = self.slots[ref["slot"]]
            return obj if self.alias else copy.deepcopy(obj)
        if isinstance(ref, dict) and "params_spec" in ref:
            return build_params(ref["params_spec"], idnt, kw_model)
        return copy.deepcopy(ref)

    def hold(self, slot, obj, returned=False):
        if returned and not self.alias:
            obj = copy.deepcopy(obj)
        self.slots[slot] = obj


def mutate_held(obj, edit):
    """In-place edit of a held object; returns False if not applicable."""
    import lmfit
    k = edit["kind"]
    try:
        if k == "param":
            if not isinstance(obj, lmfit.Parameters) or \
                    edit["name"] not in obj:
                return False
            # documented workflow: edit attributes of the Parameter in place
            q = obj[edit["name"]]
            # keep the value inside the bounds: lmfit clips lazily, and a
            # deep copy of an out-of-bounds parameter is not equal to the
            # original (a property of lmfit, not of nanite)
            if edit["attr"] == "max" and not (q.min <= q.value
                                              <= edit["value"]):
                return False
            if edit["attr"] == "min" and not (edit["value"] <= q.value
                                              <= q.max):
                return False
            if edit["attr"] == "value" and not (q.min <= edit["value"]
                                                <= q.max):
                return False
            setattr(q, edit["attr"], edit["value"])
        elif k == "list_append":
            if not isinstance(obj, list):
                return False
            obj.append(copy.deepcopy(edit["value"]))
        elif k == "list_pop":
            if not isinstance(obj, list) or not obj:
                return False
            obj.pop(edit.get("index", -1) % len(obj))
        elif k == "list_set":
            if not isinstance(obj, list) or not obj:
                return False
            obj[edit["index"] % len(obj)] = copy.deepcopy(edit["value"])
        elif k == "dict_set":
            if not isinstance(obj, dict):
                return False
            d = obj
            for key in edit["path"][:-1]:
                d = d.setdefault(key, {})
                if not isinstance(d, dict):
                    return False
            d[edit["path"][-1]] = copy.deepcopy(edit["value"])
        elif k == "dict_clear":
            if not isinstance(obj, dict):
                return False
            obj.clear()
        elif k == "array_scale":
            if not isinstance(obj, np.ndarray):
                return False
            obj *= edit["factor"]
        elif k == "tuple_col_scale":
            if not isinstance(obj, tuple):
                return False
            a = obj[edit.get("index", 0) % len(obj)]
            if a.ndim == 2:
                a[:, edit.get("col", 0) % a.shape[1]] *= edit["factor"]
            else:
                a[::2] = a[::2][::-1].copy()
        elif k == "array_set":
            if not isinstance(obj, np.ndarray) or obj.size == 0:
                return False
            obj.flat[edit["index"] % obj.size] = edit["value"]
        else:
            return False
    except Exception:
        return False
    return True


def c10_new_object(what, spec, idnt):
    if what == "params":
        return build_params(spec, idnt)
    if what == "force":
        cfg = dict(spec)
        bad = cfg.pop("invalid", None)
        arr = np.array(curves.make_curve(cfg)["force"], copy=True)
        for pos, val in (bad or []):
            # legal input: a recording with invalid samples
            arr[int(pos * (arr.size - 1))] = {
                "nan": np.nan, "inf": np.inf, "-inf": -np.inf}[val]
        return arr
    if what == "xarray":
        n = int(spec.get("n", 50))
        lo, hi = spec.get("lo", -1e-6), spec.get("hi", 1e-6)
        a = np.linspace(hi, lo, n)
        return a if spec.get("descending", True) else a[::-1].copy()
    if what == "trainset":
        from nanite.rate.rater import IndentationRater
        X, y = IndentationRater.load_training_set(path=_zef18_path())
        st = int(spec.get("step", 3))
        X = np.array(X[::st], copy=True)
        for r_, c_, v_ in spec.get("inf", []):
            # legal input: a feature that is infinite for some samples
            X[r_ % X.shape[0], c_ % X.shape[1]] = \
                np.inf if v_ > 0 else -np.inf
        return (X, np.array(y[::st], copy=True))
    if what == "weights":
        from nanite.rate.rater import IndentationRater
        X, y = IndentationRater.load_training_set(path=_zef18_path())
        n = len(y[::int(spec.get("step", 3))])
        rng = np.random.Generator(np.random.PCG64(int(spec.get("seed", 1))))
        w = rng.random(n) * 10 + 0.1
        if spec.get("as") == "list":
            return [float(x) for x in w]
        return w.astype(spec.get("dtype", "float64"))
    if what == "samples":
        rng = np.random.Generator(np.random.PCG64(int(spec.get("seed", 1))))
        return rng.random((int(spec.get("rows", 2)), 15))
    return copy.deepcopy(spec)     # steps, options, method_kws, range_x, names


def c10_apply(idnt, caller, op):
    """Apply one op in one world. Returns (outcome, [(argname, before,
    after)])."""
    import nanite.poc
    from nanite import model as nmodel
    from nanite.rate.features import IndentationFeatures
    kind = op["op"]
    PLAN.disarm()
    if op.get("fault"):
        PLAN.arm(op["fault"])
    out = {"ok": True}
    held_args = []     # (name, object) to check for library-side mutation

    def A(name, ref, **kw):
        obj = caller.arg(ref, idnt, **kw)
        if isinstance(obj, (list, dict, np.ndarray, tuple)) or \
                type(obj).__name__ == "Parameters":
            held_args.append((name, obj, enc_full(obj)))
        return obj

    nmin0 = PLAN.total["minimize"]
    try:
        with warnings.catch_warnings():
            warnings.simplefilter("ignore")
            if kind == "new":
                caller.hold(op["slot"], c10_new_object(op["what"],
                                                       op.get("spec"), idnt))
                return None, []
            if kind == "mutate":
                if op["slot"] not in caller.slots:
                    return None, []
                mutate_held(caller.slots[op["slot"]], op["edit"])
                return None, []
            if kind == "get_init":
                p = idnt.get_initial_fit_parameters(
                    model_key=op.get("model_key"))
                out["ret"] = enc_params(p)
                caller.hold(op["slot"], p, returned=True)
            elif kind == "fit":
                kw = {}
                # keyword arguments are a mapping: the aliasing caller
                # passes them in the order of the op (shuffled by the
                # generator), the by-value caller alphabetically
                order = list(op.get("args", {})) if caller.alias \
                    else sorted(op.get("args", {}))
                for k in order:
                    kw[k] = A(k, op["args"][k],
                              kw_model=op["args"].get("model_key")
                              if isinstance(op["args"].get("model_key"),
                                            str) else None)
                idnt.fit_model(**kw)
            elif kind == "prep":
                steps = A("steps", op["steps"])
                options = A("options", op.get("options"))
                route = op.get("route", "apply")
                if route == "apply":
                    idnt.apply_preprocessing(steps, options)
                elif route == "details":
                    idnt.apply_preprocessing(steps, options,
                                             ret_details=True)
                elif route == "attr_inplace":
                    # the remembered attributes are edited in place to the
                    # new request, then the curve is asked to apply them
                    idnt.preprocessing[:] = steps
                    if options is not None and \
                            idnt.preprocessing_options is not options:
                        po = idnt.preprocessing_options
                        options = copy.deepcopy(options)
                        for k_ in list(po):
                            if k_ not in options:
                                del po[k_]
                        for k_, v_ in options.items():
                            if isinstance(po.get(k_), dict) and \
                                    isinstance(v_, dict):
                                po[k_].clear()
                                po[k_].update(v_)
                            else:
                                po[k_] = v_
                    idnt.apply_preprocessing()
                else:
                    kw = {"preprocessing": steps}
                    if options is not None:
                        kw["preprocessing_options"] = options
                    idnt.fit_model(**kw)
            elif kind == "setfp":
                idnt.fit_properties[op["key"]] = A(op["key"], op["value"])
            elif kind == "poc":
                force = A("force", op["force"])
                if op.get("details"):
                    idx, det = nanite.poc.compute_poc(
                        force=force, ret_details=True,
                        method=op.get("method", "deviation_from_baseline"))
                    out["ret"] = int(idx)
                    out["aliases_arg"] = _shares(det, force)
                else:
                    out["ret"] = int(nanite.poc.compute_poc(
                        force=force, method=op.get(
                            "method", "deviation_from_baseline")))
            elif kind == "model":
                md = nmodel.models_available[op["model"]]
                params = A("params", op["params"])
                x = A("x", op["x"])
                if op.get("residual"):
                    y = A("y", op["y"])
                    r = md.residual(params, x, y, op.get("weight_cp", 5e-7))
                    out["aliases_arg"] = _shares(r, x) or _shares(r, y)
                else:
                    r = md.model(params, x)
                    out["aliases_arg"] = _shares(r, x)
                out["ret"] = digest_array(np.asarray(r))
                if op.get("again_edit") and isinstance(op["x"], dict) \
                        and op["x"].get("slot") in caller.slots:
                    # the caller edits its abscissa array in place and asks
                    # again right away (same parameters)
                    mutate_held(caller.slots[op["x"]["slot"]],
                                op["again_edit"])
                    # (the caller's own edit is not the library's doing)
                    held_args[:] = [(n_, o_, enc_full(o_) if n_ == "x"
                                     else b_) for n_, o_, b_ in held_args]
                    x2 = A("x2", op["x"])
                    if op.get("residual"):
                        r2 = md.residual(params, x2, y,
                                         op.get("weight_cp", 5e-7))
                    else:
                        r2 = md.model(params, x2)
                    out["ret"] = [out["ret"],
                                  digest_array(np.asarray(r2))]
            elif kind == "features":
                names = A("names", op["names"])
                r = IndentationFeatures.compute_features(
                    idnt, which_type=op.get("which_type", "all"),
                    names=names)
                out["ret"] = digest_array(np.asarray(r))
            elif kind == "rate":
                kw = {}
                for k in sorted(op.get("args", {})):
                    kw[k] = A(k, op["args"][k])
                out["ret"] = fhex(idnt.rate_quality(**kw))
            elif kind == "load_ts":
                from nanite.rate.rater import IndentationRater
                names = A("names", op.get("names"))
                r = IndentationRater.load_training_set(
                    path=_zef18_path(), names=names,
                    **copy.deepcopy(op.get("kw", {})))
                out["ret"] = [digest_array(np.asarray(r[0])),
                              digest_array(np.asarray(r[1]))]
                caller.hold(op["slot"], (r[0], r[1]), returned=True)
            elif kind == "get_rating_params":
                # the reported rating parameters are returned objects
                rp = idnt.get_rating_parameters()
                fn = rp["Feature names"]
                out["ret"] = enc(fn)
                if isinstance(fn, list):
                    caller.hold(op["slot"], fn, returned=True)
            elif kind == "get_rater_kw":
                # the convenience constructor with the caller's own
                # regressor keywords, then a rating with the defaults
                import nanite.rate
                rkw = A("kw", op["kw"])
                X = np.random.Generator(np.random.PCG64(3)).random((3, 15))
                r0 = nanite.rate.get_rater(op["regressor"])
                d0 = digest_array(np.asarray(r0.rate(samples=X)))
                r1 = nanite.rate.get_rater(op["regressor"], **rkw)
                r2 = nanite.rate.get_rater(op["regressor"])
                out["ret"] = [digest_array(np.asarray(r1.rate(samples=X))),
                              digest_array(np.asarray(r2.rate(samples=X)))]
                # a call with own keywords in between changes nothing for
                # a call without
                out["defaults_changed"] = d0 != out["ret"][1]
            elif kind == "make_rater":
                # the rater constructed directly, with the caller's own
                # training set and sample weights
                from nanite.rate import regressors
                from nanite.rate.rater import IndentationRater
                cls, rkw = regressors.reg_dict[op.get("regressor",
                                                      "Decision Tree")]
                ts = A("training_set", op["training_set"])
                w = A("sample_weight", op["sample_weight"])
                rater = IndentationRater(regressor=cls(**copy.deepcopy(rkw)),
                                         training_set=ts, sample_weight=w)
                X = np.random.Generator(np.random.PCG64(3)).random(
                    (3, np.asarray(ts[0]).shape[1]))
                out["ret"] = digest_array(np.asarray(rater.rate(samples=X)))
            elif kind == "rate_samples":
                samples = A("samples", op["samples"])
                rater = RATERS.get("Decision Tree")
                out["ret"] = digest_array(np.asarray(
                    rater.rate(samples=samples)))
            elif kind == "emod":
                e, d = idnt.compute_emodulus_mindelta()
                out["ret"] = [digest_array(e), digest_array(d)]
            else:
                raise core.HarnessError(f"unknown op {kind}")
    except SkipOp:
        return None, []
    except core.HarnessError:
        raise
    except core.INJECTED as e:
        out = {"ok": False, "exc": type(e).__name__, "injected": True}
    except _caught() as e:
        out = {"ok": False, "exc": type(e).__name__, "msg": str(e)[:120]}
    finally:
        if PLAN.fired:
            out["fired"] = dict(PLAN.fired)
        PLAN.disarm()
    out["minimize_calls"] = PLAN.total["minimize"] - nmin0
    changed = [(n, b, enc_full(o)) for n, o, b in held_args]
    return out, changed


def _shares(obj, arr):
    """Does any array inside `obj` share memory with `arr`?"""
    if isinstance(obj, np.ndarray):
        return bool(np.shares_memory(obj, arr))
    if isinstance(obj, dict):
        return any(_shares(v, arr) for v in obj.values())
    if isinstance(obj, (list, tuple)):
        return any(_shares(v, arr) for v in obj)
    return False


def enc_full(v):
    """Deep value snapshot (arrays by digest, params by all attributes)."""
    import lmfit
    if isinstance(v, lmfit.Parameters):
        return {"__params__": [[n, fhex(q.value), fhex(q.min), fhex(q.max),
                                bool(q.vary), q.expr,
                                fhex(q.brute_step) if q.brute_step is not None
                                else None]
                               for n, q in v.items()]}
    return enc(v)


def c10_gen_scenario(rng, sid):
    """A few ops that hold an object, pass it, edit it in place and pass it
    again."""
    kind = rng.choice(["params", "params", "init", "init", "steps",
                       "options", "method_kws", "range_x", "names",
                       "force", "model", "samples", "trainset", "loadts",
                       "weights", "raterkw", "ratingparams"])
    s = f"{kind}{sid}"
    extra = {}
    if rng.random() < 0.4:
        extra["gcf_k"] = rng.choice([0.5, 0.6135, 2.0])
    if rng.random() < 0.3:
        extra["range_type"] = "relative cp"
        extra["range_x"] = rng.choice([[-1e-6, 5e-7], [-5e-7, 1e-6]])
    if rng.random() < 0.2:
        extra["optimal_fit_edelta"] = True
        extra["optimal_fit_num_samples"] = 7
    mk = rng.choice(["hertz_para", "hertz_cone", "sneddon_spher_approx",
                     "hertz_pyr3s"])
    pedits = [
        {"kind": "param", "name": "E", "attr": "value",
         "value": rng.choice([800.0, 5000.0, 2e4])},
        {"kind": "param", "name": "contact_point", "attr": "value",
         "value": rng.choice([1e-7, -2e-7, 5e-8])},
        {"kind": "param", "name": "baseline", "attr": "vary",
         "value": False},
        {"kind": "param", "name": "E", "attr": "max", "value": 1e5},
        {"kind": "param", "name": "E", "attr": "max",
         "value": rng.choice([1e4, 5e3, 2e4])},
        {"kind": "param", "name": "E", "attr": "min",
         "value": rng.choice([100.0, 1e3])},
        {"kind": "param", "name": "contact_point", "attr": "max",
         "value": rng.choice([1e-7, 0.0])},
        {"kind": "param", "name": "baseline", "attr": "min",
         "value": rng.choice([0.0, -1e-11])},
        {"kind": "param", "name": "contact_point", "attr": "vary",
         "value": False},
        {"kind": "param", "name": rng.choice(["R", "alpha", "nu"]),
         "attr": "value", "value": rng.choice([0.4, 3e-6, 12])},
        # small steps of quantities in SI units
        {"kind": "param", "name": "contact_point", "attr": "value",
         "value": rng.choice([4e-9, 8e-9, -6e-9, 1e-10])},
        {"kind": "param", "name": "R", "attr": "value",
         "value": rng.choice([1.0000004e-5, 1.0000001e-5])},
        {"kind": "param", "name": "baseline", "attr": "value",
         "value": rng.choice([1e-12, -3e-13])},
    ]
    ops = []
    if kind == "params":
        ops.append({"op": "new", "slot": s, "what": "params",
                    "spec": {"model": mk, "edits": {}}})
        ops.append({"op": "fit", "args": dict(
            extra, model_key=mk, params_initial={"slot": s})})
        ops.append({"op": "mutate", "slot": s, "edit": rng.choice(pedits)})
        ops.append({"op": "fit", "args": dict(
            extra, model_key=mk, params_initial={"slot": s})})
    elif kind == "init":
        if rng.random() < 0.5:
            ops.append({"op": "fit", "args": dict(extra, model_key=mk)})
        ops.append({"op": "get_init", "slot": s,
                    "model_key": rng.choice([None, mk])})
        ops.append({"op": "mutate", "slot": s, "edit": rng.choice(pedits)})
        ops.append({"op": "fit", "args": dict(
            extra, params_initial={"slot": s})})
        if rng.random() < 0.5:
            ops.append({"op": "mutate", "slot": s,
                        "edit": rng.choice(pedits)})
            ops.append({"op": "fit", "args": {"params_initial":
                                              {"slot": s}}})
    elif kind == "steps":
        steps = gen_pipeline(rng)
        ops.append({"op": "new", "slot": s, "what": "steps", "spec": steps})
        route = rng.choice(["apply", "fit_kw", "details"])
        ops.append({"op": "prep", "steps": {"slot": s}, "options": None,
                    "route": route})
        missing = [x for x in ["smooth_height", "correct_force_offset",
                               "correct_split_approach_retract"]
                   if x not in steps]
        if missing and rng.random() < 0.6 and "compute_tip_position" in steps:
            ed = {"kind": "list_append", "value": rng.choice(missing)}
        elif len(steps) > 1:
            ed = {"kind": "list_pop", "index": -1}
        else:
            ed = {"kind": "list_append", "value": "smooth_height"}
        ops.append({"op": "mutate", "slot": s, "edit": ed})
        ops.append({"op": "prep", "steps": {"slot": s}, "options": None,
                    "route": rng.choice(["apply", "fit_kw"])})
    elif kind == "options":
        steps = ["compute_tip_position", "correct_force_offset",
                 "correct_tip_offset"]
        if rng.random() < 0.5:
            steps.append("correct_force_slope")
        opts = {"correct_tip_offset": {"method": "deviation_from_baseline"}}
        if "correct_force_slope" in steps:
            opts["correct_force_slope"] = {"region": "baseline",
                                           "strategy": "shift"}
        if "correct_force_slope" not in steps and rng.random() < 0.5:
            # legal: options for a step that is not in this call's list
            opts["correct_force_slope"] = {"region": "approach",
                                           "strategy": "drift"}
        if rng.random() < 0.3:
            opts["smooth_height"] = {}
        ops.append({"op": "new", "slot": s, "what": "options", "spec": opts})
        route = rng.choice(["apply", "fit_kw", "details"])
        ops.append({"op": "prep", "steps": steps, "options": {"slot": s},
                    "route": route})
        if "correct_force_slope" in steps and rng.random() < 0.5:
            ed = {"kind": "dict_set",
                  "path": ["correct_force_slope",
                           rng.choice(["region", "strategy"])],
                  "value": rng.choice(["all", "approach", "drift"])}
            if ed["path"][1] == "strategy":
                ed["value"] = "drift"
            elif ed["value"] == "drift":
                ed["value"] = "all"
        else:
            ed = {"kind": "dict_set", "path": ["correct_tip_offset",
                                               "method"],
                  "value": rng.choice(["gradient_zero_crossing",
                                       "frechet_direct_path",
                                       "fit_constant_line"])}
        ops.append({"op": "mutate", "slot": s, "edit": ed})
        ops.append({"op": "prep", "steps": steps, "options": {"slot": s},
                    "route": rng.choice(["apply", "fit_kw"])})
        if rng.random() < 0.4:
            # ... and once more through the curve's own attributes, edited
            # in place
            o3 = copy.deepcopy(opts)
            o3["correct_tip_offset"] = {"method": rng.choice(
                ["gradient_zero_crossing", "fit_constant_line",
                 "deviation_from_baseline"])}
            ops.append({"op": "prep", "steps": steps, "options": o3,
                        "route": "attr_inplace"})
    elif kind == "trainset":
        tspec = {"step": rng.choice([3, 4])}
        if rng.random() < 0.3:
            tspec["inf"] = [[rng.randrange(100), rng.randrange(12),
                             rng.choice([1, -1])]
                            for _ in range(rng.choice([1, 2]))]
        ops.append({"op": "new", "slot": s, "what": "trainset",
                    "spec": tspec})
        ops.append({"op": "fit", "args": {}})
        reg = rng.choice(["Decision Tree", "Extra Trees",
                          "SVR (linear kernel)", "SVR (RBF kernel)"])
        ops.append({"op": "rate", "args": {"regressor": reg,
                                           "training_set": {"slot": s}}})
        ops.append({"op": "mutate", "slot": s, "edit": {
            "kind": "tuple_col_scale", "index": rng.choice([0, 0, 1]),
            "col": rng.randrange(12), "factor": rng.choice([-1.0, 3.0])}})
        ops.append({"op": "rate", "args": {"regressor": reg,
                                           "training_set": {"slot": s}}})
    elif kind == "method_kws":
        ops.append({"op": "new", "slot": s, "what": "method_kws",
                    "spec": rng.choice([{"max_nfev": 300},
                                        {"max_nfev": 300},
                                        {"maxfev": 200},
                                        {"max_nfev": 40, "maxiter": 30},
                                        {"max_nfev": 100, "ftol": 1e-9}])})
        ops.append({"op": "fit", "args": dict(extra,
                                              method_kws={"slot": s})})
        ops.append({"op": "mutate", "slot": s, "edit": {
            "kind": "dict_set", "path": ["max_nfev"],
            "value": rng.choice([4, 8, 12])}})
        ops.append({"op": "fit", "args": {"method_kws": {"slot": s}}})
    elif kind == "range_x" and rng.random() < 0.3:
        # plateau search: the lower bound is edited (a don't-care there),
        # then the upper one, always on the same list object
        extra.pop("range_x", None)
        ops.append({"op": "new", "slot": s, "what": "range_x",
                    "spec": [-1e-6, 5e-7]})
        ops.append({"op": "fit", "args": {
            "range_x": {"slot": s}, "optimal_fit_edelta": True,
            "optimal_fit_num_samples": 7}})
        ops.append({"op": "mutate", "slot": s, "edit": {
            "kind": "list_set", "index": 0,
            "value": rng.choice([-6e-7, -3e-7])}})
        ops.append({"op": "fit", "args": {"range_x": {"slot": s}}})
        ops.append({"op": "mutate", "slot": s, "edit": {
            "kind": "list_set", "index": 1,
            "value": rng.choice([3e-7, 8e-7])}})
        ops.append({"op": "fit", "args": {"range_x": {"slot": s}}})
    elif kind == "range_x" and rng.random() < 0.5:
        # plateau search first; then it is switched off in the same call
        # that passes the (edited) range - keyword order must not matter
        ops.append({"op": "new", "slot": s, "what": "range_x",
                    "spec": [-1e-6, 5e-7]})
        ops.append({"op": "fit", "args": {
            "range_x": {"slot": s}, "optimal_fit_edelta": True,
            "optimal_fit_num_samples": 7}})
        ops.append({"op": "mutate", "slot": s, "edit": {
            "kind": "list_set", "index": 0,
            "value": rng.choice([-6e-7, -3e-7])}})
        ops.append({"op": "fit", "args": {
            "range_x": {"slot": s}, "optimal_fit_edelta": False}})
    elif kind == "range_x":
        extra.pop("range_x", None)
        extra.pop("optimal_fit_edelta", None)
        ops.append({"op": "new", "slot": s, "what": "range_x",
                    "spec": [-1e-6, 5e-7]})
        ops.append({"op": "fit", "args": dict(extra, range_x={"slot": s})})
        ops.append({"op": "mutate", "slot": s, "edit": {
            "kind": "list_set", "index": rng.choice([0, 1]),
            "value": rng.choice([-3e-7, 2e-7, -6e-7])}})
        ops.append({"op": "fit", "args": {"range_x": {"slot": s}}})
    elif kind == "names":
        names = rng.sample(CON_FEATURES, 3)
        ops.append({"op": "new", "slot": s, "what": "names", "spec": names})
        ops.append({"op": "fit", "args": {}})
        if rng.random() < 0.5:
            ops.append({"op": "features", "names": {"slot": s},
                        "which_type": rng.choice(["all", "continuous"])})
        ops.append({"op": "rate", "args": {"regressor": "Decision Tree",
                                           "names": {"slot": s}}})
        ops.append({"op": "mutate", "slot": s, "edit": {
            "kind": "list_append",
            "value": rng.choice([c for c in CON_FEATURES
                                 if c not in names])}})
        ops.append({"op": "rate", "args": {"regressor": "Decision Tree",
                                           "names": {"slot": s}}})
    elif kind == "ratingparams":
        names = rng.sample(CON_FEATURES, 4)
        ops.append({"op": "fit", "args": {}})
        ops.append({"op": "rate", "args": {"regressor": "Decision Tree",
                                           "names": names}})
        ops.append({"op": "get_rating_params", "slot": s})
        ops.append({"op": "mutate", "slot": s, "edit": rng.choice([
            {"kind": "list_pop", "index": rng.randrange(4)},
            {"kind": "list_append",
             "value": rng.choice([c for c in CON_FEATURES
                                  if c not in names])}])})
        ops.append({"op": "rate", "args": {"regressor": "Decision Tree",
                                           "names": {"slot": s}}})
    elif kind == "raterkw":
        reg = rng.choice(["Decision Tree", "Decision Tree", "Extra Trees"])
        ops.append({"op": "new", "slot": s, "what": "method_kws",
                    "spec": rng.choice([{"max_depth": 1},
                                        {"min_samples_leaf": 40},
                                        {"max_depth": 2,
                                         "random_state": 7}])})
        ops.append({"op": "get_rater_kw", "regressor": reg,
                    "kw": {"slot": s}})
        ops.append({"op": "mutate", "slot": s, "edit": {
            "kind": "dict_set", "path": ["max_depth"],
            "value": rng.choice([3, 4])}})
        ops.append({"op": "get_rater_kw", "regressor": reg,
                    "kw": {"slot": s}})
    elif kind == "weights":
        st = rng.choice([3, 4])
        ops.append({"op": "new", "slot": s + "t", "what": "trainset",
                    "spec": {"step": st}})
        ops.append({"op": "new", "slot": s, "what": "weights",
                    "spec": {"step": st, "seed": rng.randrange(100),
                             "dtype": rng.choice(["float64", "float64",
                                                  "float32"]),
                             "as": rng.choice(["array", "array", "list"])}})
        reg = rng.choice(["Decision Tree", "Extra Trees"])
        ops.append({"op": "make_rater", "regressor": reg,
                    "training_set": {"slot": s + "t"},
                    "sample_weight": {"slot": s}})
        ops.append({"op": "mutate", "slot": s, "edit": rng.choice([
            {"kind": "array_scale", "factor": 2.0},
            {"kind": "array_set", "index": rng.randrange(100),
             "value": 50.0},
            {"kind": "list_set", "index": rng.randrange(100),
             "value": 50.0}])})
        ops.append({"op": "make_rater", "regressor": reg,
                    "training_set": {"slot": s + "t"},
                    "sample_weight": {"slot": s}})
    elif kind == "loadts":
        # a training set read from disk is a returned object the caller may
        # edit; reading the same files again gives the same arrays
        names = rng.choice([None, None, rng.sample(CON_FEATURES, 4)])
        kw = rng.choice([{}, {"remove_nan": False},
                         {"remove_nan": False, "replace_inf": False},
                         {"impute_zero_rated_nan": False},
                         {"replace_inf": False}])
        ops.append({"op": "load_ts", "slot": s, "names": names, "kw": kw})
        ops.append({"op": "mutate", "slot": s, "edit": {
            "kind": "tuple_col_scale", "index": rng.choice([0, 1]),
            "col": rng.randrange(4), "factor": rng.choice([-1.0, 3.0])}})
        ops.append({"op": "load_ts", "slot": s + "b", "names": names,
                    "kw": kw})
    elif kind == "force":
        spec = {"kind": "synthetic", "model": mk, "n": rng.choice([80, 200]),
                "noise": 0.01, "seed": rng.randrange(100)}
        if rng.random() < 0.4:
            spec["invalid"] = [[rng.choice([0.0, 0.1, 0.5, 0.9, 1.0]),
                                rng.choice(["nan", "inf", "-inf"])]
                               for _ in range(rng.choice([1, 2]))]
        ops.append({"op": "new", "slot": s, "what": "force", "spec": spec})
        ops.append({"op": "poc", "force": {"slot": s},
                    "method": rng.choice(POC_METHODS),
                    "details": rng.random() < 0.6})
        ops.append({"op": "mutate", "slot": s, "edit": {
            "kind": "array_scale", "factor": 2.0}})
        ops.append({"op": "poc", "force": {"slot": s},
                    "method": rng.choice(POC_METHODS),
                    "details": rng.random() < 0.6})
    elif kind == "model":
        ops.append({"op": "new", "slot": s + "p", "what": "params",
                    "spec": {"model": mk, "edits": {}}})
        ops.append({"op": "new", "slot": s + "x", "what": "xarray",
                    "spec": {"n": 40, "descending": rng.random() < 0.5}})
        ops.append({"op": "new", "slot": s + "y", "what": "xarray",
                    "spec": {"n": 40, "lo": 0, "hi": 1e-9}})
        for _ in range(2):
            ops.append({"op": "model", "model": mk,
                        "params": {"slot": s + "p"}, "x": {"slot": s + "x"},
                        "y": {"slot": s + "y"},
                        "residual": rng.random() < 0.6,
                        "weight_cp": rng.choice([0, 5e-7])})
            if rng.random() < 0.4:
                ops[-1]["again_edit"] = rng.choice(
                    [{"kind": "array_scale", "factor": 0.5},
                     {"kind": "array_set", "index": rng.randrange(40),
                      "value": -2e-7}])
            if rng.random() < 0.5:
                ops.append({"op": "mutate", "slot": s + "p",
                            "edit": rng.choice(pedits[:2])})
            else:
                # same parameters, the abscissa array edited in place
                ops.append({"op": "mutate", "slot": s + "x", "edit":
                            rng.choice([{"kind": "array_scale",
                                         "factor": 0.5},
                                        {"kind": "array_set", "index":
                                         rng.randrange(40),
                                         "value": -2e-7}])})
    else:
        ops.append({"op": "new", "slot": s, "what": "samples",
                    "spec": {"seed": rng.randrange(100),
                             "rows": rng.choice([1, 3])}})
        ops.append({"op": "rate_samples", "samples": {"slot": s}})
        ops.append({"op": "mutate", "slot": s, "edit": {
            "kind": "array_set", "index": rng.randrange(40),
            "value": 0.5}})
        ops.append({"op": "rate_samples", "samples": {"slot": s}})
    # keyword arguments in a seeded order
    for o in ops:
        if o["op"] == "fit" and len(o.get("args", {})) > 1 \
                and rng.random() < 0.5:
            ks = list(o["args"])
            rng.shuffle(ks)
            o["args"] = {k_: o["args"][k_] for k_ in ks}
    return ops


class CurveEngineC10:
    prop = "C10"
    components = COMPONENTS
    assumptions = [
        "objects the caller holds: ones it created and passed, and return "
        "values of get_initial_fit_parameters(); reads of public attributes "
        "or of fit_properties items are not treated as 'returned objects' "
        "(editing those is editing settings)",
        "the two worlds run the same op list in one process, op by op; "
        "observations are compared after every library call, not after the "
        "caller's own edits",
        "A2 snapshots lmfit parameters by value/min/max/vary/expr/"
        "brute_step, arrays by bytes",
    ]
    rule_text = (
        "twin-world simulation: the same seeded op list (2-5 scenarios of "
        "hold / pass / edit in place / pass again over parameter sets, step "
        "lists, option and method dictionaries, ranges, feature-name lists, "
        "force arrays (also with NaN/inf samples), sample arrays, sample "
        "weights and training sets read from disk, with gcf_k, multi-pass "
        "ranges and plateau search mixed in) is executed by an aliasing "
        "caller and by a "
        "by-value caller; A1: outcomes and full curve observations identical "
        "after every call; A2: every argument unchanged by the call. "
        "distinct = op-list digest; non-trivial = a held object was edited "
        "in place and then passed again")

    def generate(self, rng, tier, index):
        cfg = curves.gen_curve_cfg(rng, allow_recorded=rng.random() < 0.2)
        nsc = rng.choice([1, 2, 2, 3] if tier == "quick" else [2, 3, 4, 5])
        ops = [{"op": "prep", "steps": ["compute_tip_position",
                                        "correct_force_offset",
                                        "correct_tip_offset"],
                "options": None, "route": "apply"}]
        if rng.random() < 0.25:
            # an untouched curve: its (default) attributes are edited in
            # place and applied
            ops[0] = {"op": "prep", "route": "attr_inplace",
                      "steps": ["compute_tip_position",
                                "correct_force_offset", "correct_tip_offset"],
                      "options": {"correct_tip_offset": {"method": rng.choice(
                          ["fit_constant_line", "gradient_zero_crossing"])}}}
        scen = [c10_gen_scenario(rng, k) for k in range(nsc)]
        if rng.random() < 0.5:
            # interleave scenarios, keeping each one's internal order
            while any(scen):
                sc = rng.choice([x for x in scen if x])
                ops.append(sc.pop(0))
        else:
            for sc in scen:
                ops.extend(sc)
        if rng.random() < 0.3:
            pos = rng.randrange(1, len(ops) + 1)
            ops.insert(pos, {"op": "emod"})
            ops.insert(pos, {"op": "setfp", "key": "optimal_fit_num_samples",
                             "value": 7})
        return {"config": {"curve": cfg}, "ops": ops}

    def execute(self, run):
        seams.install_curve_seams()
        seams.install_sim_model()
        seams.install_lmfit_determinism()
        seams.install_rater_memo(RATERS)
        cfg = run["config"]["curve"]
        seams.snapshot_globals()
        seams.restore_globals()
        worlds = [(curves.make_curve(cfg), Caller(True)),
                  (curves.make_curve(cfg), Caller(False))]
        FRESH_MEMO.clear()
        FRESH_OBJ_MEMO.clear()
        log = []
        probes = core.collections.Counter()
        states = set()
        violation = None
        edited = set()
        loads = {}
        nontrivial = False
        oracle_checks = 0
        executed = 0
        for i, op in enumerate(run["ops"]):
            res = []
            for idnt, caller in worlds:
                res.append(c10_apply(idnt, caller, op))
            (oa, ca), (ov, cv) = res
            if op["op"] == "mutate":
                edited.add(op["slot"])
                continue
            if oa is None and ov is None:
                continue
            executed += 1
            passed = [v["slot"] for v in _slot_refs(op)]
            if any(sl in edited for sl in passed):
                nontrivial = True
                probes["edited object passed again"] += 1
            oracle_checks += 1
            feats = {"op": op["op"], "passed": sorted(
                set(x.rstrip("0123456789") for x in passed))}
            # A2: arguments unchanged
            for world, ch in (("alias", ca), ("value", cv)):
                for name, before, after in ch:
                    if before != after:
                        feats["arg"] = name
                        feats["world"] = world
                        violation = make_violation(
                            self.prop, "A2", f"mutated:{op['op']}:{name}",
                            feats,
                            f"argument {name!r} of {op['op']} was modified "
                            f"by the call: {str(before)[:200]} -> "
                            f"{str(after)[:200]}", i)
                        break
                if violation:
                    break
            if violation:
                break
            g = seams.changed_global()
            if g is not None:
                violation = make_violation(
                    self.prop, "A2", f"shared-defaults-modified:{g}", feats,
                    f"{op['op']} modified the module-level table {g}", i)
                break
            if oa.get("defaults_changed") or ov.get("defaults_changed"):
                violation = make_violation(
                    self.prop, "A1", "defaults-changed:get_rater", feats,
                    "get_rater(name) rates differently after "
                    "get_rater(name, **keywords) was called in between", i)
                break
            # A4: what a call returns must not be a view of an argument
            if oa.get("aliases_arg") or ov.get("aliases_arg"):
                violation = make_violation(
                    self.prop, "A4", f"returned-aliases-argument:{op['op']}",
                    feats, f"an object returned by {op['op']} shares memory "
                    f"with an array argument of the call", i)
                break
            # A1: worlds agree
            oba, obv = observe(worlds[0][0]), observe(worlds[1][0])
            log.append({"i": i, "op": op["op"], "out": oa,
                        "obs": core.digest(oba)})
            states.add(core.digest([op["op"], feats["passed"],
                                    oa.get("ok"), oa.get("minimize_calls", 0)
                                    > 0]))
            if op["op"] == "load_ts":
                # same files, same arguments: the same arrays, whatever a
                # caller did to the ones it got before
                rk = core.jdump([op.get("names"), op.get("kw")])
                bad = None
                for world, o_ in (("alias", oa), ("value", ov)):
                    first = loads.setdefault((world, rk), o_.get("ret"))
                    if first != o_.get("ret"):
                        bad = world
                probes["training set read again"] += 1
                if bad:
                    feats["world"] = bad
                    violation = make_violation(
                        self.prop, "A1", "reload-differs:load_ts", feats,
                        f"load_training_set with the same arguments on "
                        f"unchanged files returned other arrays than before "
                        f"(an earlier returned object was edited in place)",
                        i)
                    break
            if oa != ov:
                violation = make_violation(
                    self.prop, "A1", f"outcome:{op['op']}", feats,
                    f"call outcome differs between the aliasing and the "
                    f"by-value caller: {core.jdump(oa)[:300]} vs "
                    f"{core.jdump(ov)[:300]}", i)
                break
            # A3: "the change is noticed and results are recomputed": the
            # by-value world must equal a fresh curve with the stored
            # settings (an edit that both callers' copies carry but the
            # library overlooks leaves both worlds equally stale)
            if op["op"] in ("fit", "prep", "setfp", "get_init"):
                v3 = check_r1(self.prop, worlds[1][0], cfg, op, ov, i)
                oracle_checks += 1
                if v3 is not None:
                    v3["rule"] = "A3"
                    v3["features"] = dict(feats, r1_site=v3["site"])
                    v3["site"] = "not-recomputed:" + v3["site"].split(":")[0]
                    violation = v3
                    break
            if oba != obv:
                site = "obs"
                for part in ("fp", "cols", "preprocessing",
                             "preprocessing_options", "rating"):
                    if oba[part] != obv[part]:
                        site = f"obs:{part}"
                        if isinstance(oba[part], dict):
                            for k in sorted(set(oba[part]) | set(obv[part])):
                                if oba[part].get(k) != obv[part].get(k):
                                    site = f"obs:{part}:{k}"
                                    break
                        break
                violation = make_violation(
                    self.prop, "A1", site, feats,
                    f"curve state after {op['op']} differs between the "
                    f"aliasing and the by-value caller ({site})", i)
                break
        return {"violation": violation, "log_digest": core.digest(log),
                "log": log, "probes": dict(probes), "faults": {},
                "states": sorted(states), "nontrivial": nontrivial,
                "oracle_checks": oracle_checks, "ops_executed": executed}

    def simplify_op(self, op):
        if op["op"] == "fit" and op.get("args"):
            for k in sorted(op["args"]):
                o = copy.deepcopy(op)
                o["args"].pop(k)
                yield o
        if op["op"] == "prep" and op.get("route") != "apply":
            o = copy.deepcopy(op)
            o["route"] = "apply"
            yield o


def _slot_refs(op):
    out = []

    def walk(v):
        if isinstance(v, dict):
            if "slot" in v and len(v) == 1:
                out.append(v)
            else:
                for x in v.values():
                    walk(x)
        elif isinstance(v, list):
            for x in v:
                walk(x)
    for k, v in op.items():
        if k not in ("op", "slot"):
            walk(v)
    return out
