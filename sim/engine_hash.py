"""hash-walk: seeded one-thing-at-a-time walks over data, preprocessing and
fit settings; the fit hash must identify exactly the canonical effective
settings (DESIGN.md 4.5, property C12)."""
import copy
import warnings

import numpy as np

from . import core, curves, seams
from .core import fhex, digest_array, make_violation
from .engine_curve import (COMPONENTS, MODELS, POC_METHODS, _caught,
                           merge_shared, gen_invalid_request,
                           enc_params, gen_options, gen_pipeline)
from .seams import PLAN

HMODELS = MODELS + ["sim_aux"]
SETTING_KEYS = ["model_key", "optimal_fit_edelta", "optimal_fit_num_samples",
                "params_initial", "range_type", "range_x", "segment",
                "weight_cp", "gcf_k", "x_axis", "y_axis", "method",
                "method_kws"]

# value pools; pairs that a separator-less encoding would confuse are
# deliberately adjacent
POOL = {
    "optimal_fit_edelta": [False, True],
    "optimal_fit_num_samples": [5, 10, 100, 101, 7],
    "range_type": ["absolute", "relative cp"],
    "range_x": [[0, 0], [1e-6, 1e-6], [2e-6, 2e-6], [-5e-7, -5e-7],
                [2e-6, -1e-6], [1e-6, -1e-6],
                [0, 2e-6], [-1e-6, 5e-7], [-2e-6, 5e-7], [-1e-6, 1e-6],
                [1.0, 23.0], [1.02, 3.0], [12.0, 3.0], [1.0, 2.0],
                [1.0, 2.01], [-1e-6, 0], [0, 5e-7], [1.5, 25.0],
                [1.52, 5.0]],
    "segment": [0, 1],
    "weight_cp": [0, 1e-7, 5e-7, 1e-6, 2e-6, 5e-9, 2.00001e-6],
    "gcf_k": [1.0, 0.5, 2.0, 0.6135, 0.500004],
    "x_axis": ["tip position", "height (measured)"],
    "y_axis": ["force"],
    "method": ["leastsq", "nelder", "least_squares"],
    "method_kws": [{}, {"max_nfev": 50}, {"max_nfev": 51},
                   {"max_nfev": 50, "ftol": 1e-9}, {"xtol": 1e-9},
                   {"ftol": 1e-9}, {"ftol": 1e-09, "xtol": 1e-9},
                   {"ftol": 1e-3, "xtol": 1e-9},
                   {"xtol": 1e-3, "ftol": 1e-9},
                   # nested dictionaries: the same keys on other levels
                   {"options": {"maxiter": 400}, "tol": 0.5},
                   {"options": {"maxiter": 400, "tol": 0.5}},
                   {"options": {"maxiter": 400}},
                   {"options": {}, "maxiter": 400}],
}
PARAM_EDITS = [
    ("E", "value", [500.0, 3000.0, 1.0, 1.02, 12.0, 1.5, 1.52]),
    ("E", "max", [23.0, 3.0, 1e6, float("inf"), 25.0, 5.0]),
    ("E", "min", [0.0, 0.5, 1e-3]),
    ("E", "vary", [True, False]),
    ("contact_point", "value", [0.0, 1e-7, -2e-7, 1e-8]),
    ("contact_point", "vary", [True, False]),
    ("baseline", "value", [0.0, 1e-11, -1e-10]),
    ("baseline", "vary", [True, False]),
    ("baseline", "min", [-float("inf"), -1e-9]),
    ("R", "value", [1e-5, 5e-6]),
    ("nu", "value", [0.5, 0.45]),
    ("alpha", "value", [25, 20, 5]),
    ("E1", "expr", ["virtual_parameter+E", "virtual_parameter+2*E"]),
    # constrain a parameter by an expression / release it again
    ("R", "expr", ["1e-05", "E*0+1e-05", ""]),
    ("nu", "expr", ["0.5", ""]),
    ("baseline", "expr", ["0.0", "contact_point*0", ""]),
    ("virtual_parameter", "value", [10.0, 20.0]),
    ("R", "usersym", [5e-6, 1e-5, 2e-5]),
    # auxiliary parameters of sim_aux (not in its parameter_keys)
    ("scale", "max", [100.0, 4.5, 50.0]),
    ("scale", "min", [0.0, 1.0]),
    ("scale", "value", [4.0, 2.0]),
    ("scale", "vary", [True, False]),
    ("E_ref", "value", [500.0, 250.0]),
    ("E_ref", "max", [1e5, 1e4]),
]


# --------------------------------------------------------------------------
# the harness's own canonical form of *effective* settings (independent of
# nanite's byte encoding)
# --------------------------------------------------------------------------
def cnum(x):
    if isinstance(x, (bool, np.bool_)):
        return ("n", fhex(float(bool(x))))
    return ("n", fhex(float(x)))


def cval(v):
    if isinstance(v, str):
        return ("s", v)
    if v is None:
        return ("none",)
    if isinstance(v, (bool, np.bool_, int, float, np.integer, np.floating)):
        return cnum(v)
    if isinstance(v, (list, tuple)):
        return ("l",) + tuple(cval(x) for x in v)
    if isinstance(v, dict):
        return ("d",) + tuple(sorted((str(k), cval(x))
                                     for k, x in v.items()))
    if isinstance(v, np.ndarray):
        return ("a", digest_array(v))
    raise core.HarnessError(f"no canonical form for {type(v)}")


def canon(idnt):
    """Canonical effective settings of the live object."""
    from nanite.fit import FP_DEFAULT
    from nanite import model
    fp = idnt.fit_properties
    S = {k: fp.get(k, FP_DEFAULT[k]) for k in FP_DEFAULT}
    seg = S["segment"]
    if isinstance(seg, str):
        seg = {"approach": 0, "retract": 1}.get(seg, seg)
    out = [("preprocessing", cval(list(S["preprocessing"]))),
           ("preprocessing_options", cval(S["preprocessing_options"]))]
    for ax in ("x_axis", "y_axis"):
        out.append((ax + ":data", digest_array(np.asarray(idnt[S[ax]]))))
    edelta = bool(S["optimal_fit_edelta"])
    for k in sorted(FP_DEFAULT):
        if k in ("preprocessing", "preprocessing_options"):
            continue
        if k == "optimal_fit_num_samples" and not edelta:
            continue
        if k == "range_x":
            rx = list(S["range_x"])
            # with the plateau search on only the upper bound counts (the
            # documented don't-care is the *lower* one): for an inverted
            # range that is the first entry
            out.append((k, cval(max(rx) if edelta else rx)))
        elif k == "segment":
            out.append((k, cval(seg)))
        elif k == "weight_cp":
            out.append((k, cval(S[k])))
        elif k == "params_initial":
            p = S[k]
            if p is None:
                raise core.HarnessError("walk keeps params_initial explicit")
            # (by name: the order of the entries of a parameter set is
            # a representation detail, like the key order of a dictionary)
            out.append((k, tuple(sorted(
                (n, fhex(q.value), fhex(q.min), fhex(q.max), bool(q.vary),
                 q.expr) for n, q in p.items()))))
        else:
            out.append((k, cval(S[k])))
    return core.digest(out)


# --------------------------------------------------------------------------
# representation variants
# --------------------------------------------------------------------------
def with_repr(v, variant):
    if variant is None:
        return copy.deepcopy(v)
    if variant == "tuple" and isinstance(v, list):
        return tuple(with_repr(x, None) for x in v)
    if variant == "float" and isinstance(v, int) and not isinstance(v, bool):
        return float(v)
    if variant == "int" and isinstance(v, bool):
        return int(v)
    if variant == "int" and isinstance(v, float) and v == int(v) \
            and abs(v) < 1e9:
        return int(v)
    if variant == "np":
        if isinstance(v, bool):
            return np.bool_(v)
        if isinstance(v, int):
            return np.int64(v)
        if isinstance(v, float):
            return np.float64(v)
        if isinstance(v, list):
            return [with_repr(x, "np") for x in v]
    if variant == "revdict" and isinstance(v, dict):
        return {k: with_repr(v[k], "revdict") for k in reversed(list(v))}
    if variant in ("dictnum", "dictnp") and isinstance(v, dict):
        # numbers inside an options dictionary in their other guise
        def other(x):
            if isinstance(x, dict):
                return {k: other(y) for k, y in x.items()}
            if isinstance(x, bool):
                return x
            if isinstance(x, int):
                return float(x) if variant == "dictnum" else np.int64(x)
            if isinstance(x, float):
                if variant == "dictnp":
                    return np.float64(x)
                return int(x) if x == int(x) and abs(x) < 1e9 else x
            return copy.deepcopy(x)
        return other(v)
    if variant == "segname" and v in (0, 1) and not isinstance(v, bool):
        return ["approach", "retract"][v]
    if variant == "listfloat" and isinstance(v, list):
        return [float(x) if isinstance(x, int) and not isinstance(x, bool)
                else x for x in v]
    return copy.deepcopy(v)


REPRS = [None, "tuple", "float", "int", "np", "revdict", "segname",
         "listfloat"]
# representation variants that are valid for a key (the statement lists
# tuple/list, int/float, dict insertion order, 'approach'/0; numpy scalars
# are what nanite's own container loader produces)
REPRS_FOR = {
    "range_x": [None, "tuple", "listfloat", "np"],
    "segment": [None, "segname", "np"],
    "weight_cp": [None, "float", "int", "np"],
    "gcf_k": [None, "float", "int", "np"],
    "optimal_fit_num_samples": [None, "np"],
    "optimal_fit_edelta": [None, "np", "int"],
    "method_kws": [None, "revdict", "dictnum", "dictnp"],
    "preprocessing_options": [None, "revdict"],
}


def pick_repr(rng, key):
    return rng.choice(REPRS_FOR.get(key, [None]))


def rebuild_params(p, rng):
    """Equal-valued parameter set built along another route (add with the
    final value / add with another value then assign .value / .set()), so
    that history-dependent attributes (init_value, stderr, correl,
    user_data) differ while value, min, max, vary, expr are equal."""
    import lmfit
    syms = {}
    try:
        for k_ in p._asteval.user_defined_symbols():
            if k_ not in p:
                syms[k_] = p._asteval.symtable[k_]
    except Exception:
        syms = {}
    q = lmfit.Parameters(usersyms=syms) if syms else lmfit.Parameters()
    late = []
    for n, par in p.items():
        if par.expr is not None:
            try:
                q.add(n, expr=par.expr, min=par.min, max=par.max)
            except NameError:
                # refers to a parameter that is defined further down
                q.add(n, value=float(par.value), min=par.min, max=par.max)
                late.append((n, par.expr))
            continue
        route = rng.choice(["add", "assign", "set"])
        if route == "add":
            q.add(n, value=par.value, min=par.min, max=par.max,
                  vary=par.vary)
            continue
        tmp = float(par.value)
        for cand in (par.min, par.max, tmp * 0.5, tmp + 1.0, 0.0):
            if np.isfinite(cand) and par.min <= cand <= par.max \
                    and cand != tmp:
                tmp = float(cand)
                break
        q.add(n, value=tmp, min=par.min, max=par.max, vary=not par.vary)
        if route == "assign":
            q[n].value = par.value
            q[n].vary = par.vary
        else:
            q[n].set(value=par.value, vary=par.vary)
    for n, expr in late:
        q[n].set(expr=expr)
    return q


def params_state(p):
    return [(n, fhex(q.value), fhex(q.min), fhex(q.max), bool(q.vary),
             q.expr) for n, q in p.items()]


def default_params(model_key):
    from nanite import model
    return model.models_available[model_key].get_parameter_defaults()


def read_hash(idnt, **kw):
    from nanite.fit import IndentationFitter
    with warnings.catch_warnings():
        warnings.simplefilter("ignore")
        return IndentationFitter(idnt, **kw).hash


def apply_perturb(idnt, perturb):
    for col, idx, n in perturb:
        if col not in idnt:
            continue
        a = np.array(idnt[col], copy=True)
        j = idx % a.size
        x = a[j]
        for _ in range(abs(n)):
            x = np.nextafter(x, np.inf if n > 0 else -np.inf)
        a[j] = x
        idnt[col] = a


class HashWalkEngine:
    prop = "C12"
    components = COMPONENTS
    assumptions = [
        "canonical form of effective settings is the harness's own (type "
        "tagged, floats by hex, numbers compared by value, dicts sorted, "
        "'approach'==0, don't-cares dropped); 'data' = bytes of the two "
        "fitted axes after preprocessing and perturbation",
        "params_initial is kept explicit along a walk (after a model change "
        "the walker stores the new model's defaults)",
        "parameter values are kept inside their bounds; -0.0 is not "
        "generated",
        "which value pairs a walk visits is seeded sampling biased towards "
        "encoder hazards (adjacent numbers whose renderings can be re-split)",
    ]
    rule_text = (
        "seeded walks of 8-30 states over (curve, pipeline, options, every "
        "FP_DEFAULT key, parameter attributes, single-sample 1-ulp data "
        "perturbations, representation variants, don't-care edits); a step "
        "changes one thing on a live object; hash read via IndentationFitter "
        "on the live object, via fitter kwargs before storing, and on a "
        "fresh object that receives the stored settings in shuffled order "
        "and other representations. H1: hash equal <=> canonical form equal "
        "for all pairs of states of a walk; H2: stored hash after fit_model "
        "== hash recomputed from stored settings; H3: sampled walks "
        "re-executed in a fresh interpreter under another PYTHONHASHSEED; "
        "H4: a fitter without initial parameters, the same fitter given its "
        "own choice explicitly and fit_model() without parameters agree. "
        "Models include two harness models (constraint expression; "
        "auxiliary parameters outside parameter_keys); some pipeline steps "
        "come from a caller that edits one options dictionary in place. "
        "distinct = op-list digest; non-trivial = walk with >= 3 distinct "
        "canonical states and at least one representation-only or "
        "don't-care step")

    # ---------------------------------------------------------------- gen
    def generate(self, rng, tier, index):
        cfg = curves.gen_curve_cfg(rng, allow_recorded=rng.random() < 0.2)
        if cfg["kind"] == "synthetic":
            cfg["n"] = min(cfg["n"], 400)
        nsteps = rng.choice([8, 12, 16, 20] if tier == "quick"
                            else [12, 20, 30])
        model = rng.choice(HMODELS)
        cur_model = model
        ops = [{"op": "init", "model": model,
                "steps": ["compute_tip_position", "correct_force_offset",
                          "correct_tip_offset"], "options": {}}]
        hazard_focus = rng.random() < 0.35
        while len(ops) < nsteps:
            r = rng.random()
            if hazard_focus and r < 0.5:
                k = rng.choice(["range_x", "param", "method_kws",
                                "optimal_fit_num_samples"])
            elif r < 0.45:
                k = rng.choice(sorted(POOL))
            elif r < 0.62:
                k = "param"
            elif r < 0.72:
                k = "repr"
            elif r < 0.8:
                k = "perturb"
            elif r < 0.88:
                k = "pipeline"
            elif r < 0.93:
                k = "model_key"
            else:
                k = "fit"
            if k in POOL:
                ops.append({"op": "set", "key": k,
                            "value": copy.deepcopy(rng.choice(POOL[k])),
                            "repr": pick_repr(rng, k),
                            "route": rng.choice(["setitem", "setitem",
                                                 "setitem", "fit_model"])})
            elif k == "param":
                name, attr, vals = rng.choice(
                    PARAM_EDITS[-6:] if cur_model == "sim_aux"
                    and rng.random() < 0.6 else PARAM_EDITS)
                ops.append({"op": "param", "name": name, "attr": attr,
                            "value": rng.choice(vals)})
            elif k == "repr":
                rk = rng.choice(
                    ["range_x", "segment", "method_kws", "weight_cp",
                     "gcf_k", "optimal_fit_num_samples",
                     "optimal_fit_edelta"])
                ops.append({"op": "repr", "key": rk,
                            "repr": rng.choice(REPRS_FOR[rk][1:])})
            elif k == "perturb":
                ops.append({"op": "perturb", "reset": rng.random() < 0.5,
                            "col": rng.choice(["force", "tip position",
                                               "height (measured)"]),
                            "index": rng.randrange(10000),
                            "ulps": rng.choice([1, -1, 2])})
            elif k == "pipeline" and rng.random() < 0.2:
                # a request that is rejected (the curve is back to its raw
                # data afterwards and remembers no pipeline)
                st_, o_ = gen_invalid_request(rng)
                ops.append({"op": "pipeline", "steps": st_,
                            "options": o_ or {}})
            elif k == "pipeline":
                steps = gen_pipeline(rng, full_bias=0.6)
                if "compute_tip_position" not in steps:
                    steps = ["compute_tip_position"] + steps
                ops.append({"op": "pipeline", "steps": steps,
                            "options": gen_options(rng, steps) or {}})
                if ops[-1]["options"].get("correct_tip_offset") and \
                        rng.random() < 0.4:
                    # a caller with one options dictionary for this curve:
                    # request, fit, the same steps with one nested option
                    # edited in place
                    ops[-1]["shared"] = True
                    ops.append({"op": "fit"})
                    o2 = copy.deepcopy(ops[-2])
                    cur = o2["options"]["correct_tip_offset"].get("method")
                    o2["options"]["correct_tip_offset"]["method"] = \
                        rng.choice([m for m in POC_METHODS[:1]
                                    + POC_METHODS[4:] if m != cur])
                    ops.append(o2)
            elif k == "model_key":
                ops.append({"op": "model", "model": rng.choice(HMODELS)})
                cur_model = ops[-1]["model"]
            else:
                ops.append({"op": "reuse_fitted"} if rng.random() < 0.35
                           else {"op": "fit"})
                if rng.random() < 0.5:
                    # a change of one parameter attribute right after a fit
                    # (the stored hash must not survive it)
                    name, attr, vals = rng.choice(PARAM_EDITS)
                    ops.append({"op": "param", "name": name, "attr": attr,
                                "value": rng.choice(vals)})
        if rng.random() < 0.15:
            # plateau search with equal range bounds (the upper bound is
            # what counts there)
            ops.append({"op": "set", "key": "optimal_fit_edelta",
                        "value": True, "repr": None, "route": "setitem"})
            for rx in rng.sample([[1e-6, 1e-6], [2e-6, 2e-6], [0, 0],
                                  [0, 2e-6], [-5e-7, -5e-7], [2e-6, -1e-6],
                                  [1e-6, -1e-6]], 3):
                ops.append({"op": "set", "key": "range_x", "value": rx,
                            "repr": None, "route": "setitem"})
        if rng.random() < 0.12:
            # a parameter that follows an lmfit user symbol, at two values
            for v_ in rng.sample([5e-6, 1e-5, 2e-5], 2):
                ops.append({"op": "param", "name": "R", "attr": "usersym",
                            "value": v_})
        if rng.random() < 0.2:
            # a fit, then a small step of a float setting (in SI units a
            # nanometre is small)
            k_, a_, b_ = rng.choice([("weight_cp", 2e-6, 2.00001e-6),
                                     ("weight_cp", 0.0, 5e-9),
                                     ("gcf_k", 0.5, 0.500004),
                                     ("weight_cp", 5e-7, 5.00001e-7)])
            ops.append({"op": "set", "key": k_, "value": a_, "repr": None,
                        "route": "setitem"})
            ops.append({"op": "fit"})
            ops.append({"op": "set", "key": k_, "value": b_, "repr": None,
                        "route": rng.choice(["setitem", "fit_model"])})
        for o in ops:
            if o["op"] in ("init", "set", "pipeline", "model", "perturb") \
                    and rng.random() < (0.4 if o["op"] == "init" else 0.1):
                o["implicit"] = rng.choice(["fitter", "fit_model"])
        xproc = (index % 20 == 7)
        return {"config": {"curve": cfg, "xproc": xproc}, "ops": ops}

    # ------------------------------------------------------------ execute
    def execute(self, run):
        seams.install_curve_seams()
        seams.install_sim_model()
        seams.install_lmfit_determinism()
        res = self._execute(run)
        if run["config"].get("xproc") and res["violation"] is None \
                and not run.get("_child"):
            v = core.cross_process(self, run, res, "H3")
            if v is not None:
                v["message"] = v["message"].replace("returned values",
                                                    "hashes")
            res["violation"] = v
            res["probes"]["walk re-executed in a fresh interpreter under "
                          "another hash seed"] = 1
        return res

    def _execute(self, run):
        cfg = run["config"]["curve"]
        rng = core.random.Random(run.get("seed", 0) ^ 0x5eed)
        seams.snapshot_globals()
        seams.restore_globals()
        live = curves.make_curve(cfg)
        perturb = []
        log, rets = [], []
        probes = core.collections.Counter()
        states = []    # (canonical digest, hash, how)
        violation = None
        executed = 0
        oracle_checks = 0
        special = False
        stale_ok = False   # stored hash known to predate a data edit
        PLAN.disarm()

        def viol(rule, site, feats, msg, i):
            return make_violation(self.prop, rule, site, feats, msg, i)

        for i, op in enumerate(run["ops"]):
            kind = op["op"]
            feats = {"op": kind, "key": op.get("key", op.get("name")),
                     "repr": op.get("repr"), "attr": op.get("attr")}
            try:
                with warnings.catch_warnings():
                    warnings.simplefilter("ignore")
                    if kind == "init":
                        live.apply_preprocessing(
                            copy.deepcopy(op["steps"]),
                            copy.deepcopy(op["options"]))
                        live.fit_properties["model_key"] = op["model"]
                        live.fit_properties["params_initial"] = \
                            default_params(op["model"])
                    elif kind == "set":
                        v = with_repr(op["value"], op.get("repr"))
                        op_probe = None
                        if op.get("route") == "fit_model":
                            # store the setting through fit_model(**kw)
                            # (this also fits); H2 is checked below
                            try:
                                live.fit_model(**{op["key"]:
                                                  copy.deepcopy(v)})
                            except _caught():
                                pass
                            if "hash" in live.fit_properties:
                                op_probe = live.fit_properties["hash"]
                        live.fit_properties[op["key"]] = v
                    elif kind == "param":
                        p = copy.deepcopy(
                            live.fit_properties["params_initial"])
                        if op["name"] not in p:
                            continue
                        q = p[op["name"]]
                        if op["attr"] == "expr" and q.expr is None \
                                and op["name"] == "E1":
                            continue
                        if op["attr"] == "expr" and op["value"] == "":
                            if q.expr is None:
                                continue
                            q.set(expr="", vary=False)
                            live.fit_properties["params_initial"] = p
                            op = dict(op, attr="_done")
                        if op["attr"] == "usersym":
                            # the parameter follows a symbol that is not a
                            # parameter (lmfit user symbol): its value is a
                            # setting of its own
                            import lmfit
                            if q.expr not in (None, "sim_sym/2") or not (
                                    q.min <= op["value"] <= q.max):
                                continue
                            p2 = lmfit.Parameters(
                                usersyms={"sim_sym": 2 * op["value"]})
                            for n_, q_ in p.items():
                                if q_.expr is None or n_ == op["name"]:
                                    p2.add(n_, value=op["value"]
                                           if n_ == op["name"] else q_.value,
                                           min=q_.min, max=q_.max,
                                           vary=q_.vary)
                            for n_, q_ in p.items():
                                if q_.expr is not None and \
                                        n_ != op["name"]:
                                    p2.add(n_, expr=q_.expr, min=q_.min,
                                           max=q_.max)
                            p2[op["name"]].set(expr="sim_sym/2")
                            live.fit_properties["params_initial"] = p2
                            op = dict(op, attr="_done")
                        if op["attr"] == "value" and not (
                                q.min <= op["value"] <= q.max):
                            continue
                        if op["attr"] == "max" and op["value"] < q.value:
                            continue
                        if op["attr"] == "min" and op["value"] > q.value:
                            continue
                        if op["attr"] != "expr" and q.expr is not None:
                            continue
                        if op["attr"] != "_done":
                            q.set(**{op["attr"]: op["value"]})
                            live.fit_properties["params_initial"] = p
                    elif kind == "repr":
                        from nanite.fit import FP_DEFAULT
                        k = op["key"]
                        cur = live.fit_properties.get(k, FP_DEFAULT[k])
                        base = _plain(cur)
                        live.fit_properties[k] = with_repr(base, op["repr"])
                        special = True
                    elif kind == "perturb":
                        perturb.append([op["col"], op["index"], op["ulps"]])
                        apply_perturb(live, [perturb[-1]])
                        # the harness edits a column behind nanite's back
                        # (new data). Half of the time results are dropped
                        # like a setting edit does; otherwise the stored
                        # results stay (nothing tells nanite) and only the
                        # *recomputed* hash is read until they are dropped
                        if op.get("reset", True):
                            live.fit_properties.reset()
                        elif "hash" in live.fit_properties:
                            stale_ok = True
                        # a changed column invalidates results the same way
                        # nanite's own column edits do: nothing to reset in
                        # fit_properties for the hash itself
                    elif kind == "pipeline":
                        fpl = live.fit_properties
                        if fpl.get("preprocessing") == op["steps"] and \
                                fpl.get("preprocessing_options") == \
                                op["options"]:
                            # an unchanged request is skipped by nanite and
                            # would keep the perturbed columns
                            continue
                        live.apply_preprocessing(
                            copy.deepcopy(op["steps"]),
                            merge_shared(live, copy.deepcopy(op["options"]))
                            if op.get("shared")
                            else copy.deepcopy(op["options"]))
                        apply_perturb(live, perturb)
                        if "params_initial" not in live.fit_properties:
                            live.fit_properties["params_initial"] = \
                                default_params(live.fit_properties.get(
                                    "model_key", "hertz_para"))
                    elif kind == "model":
                        live.fit_properties["model_key"] = op["model"]
                        live.fit_properties["params_initial"] = \
                            default_params(op["model"])
                    elif kind == "reuse_fitted":
                        # fitted parameters (carrying stderr, correl,
                        # init_value of the fit) become the initial ones
                        try:
                            live.fit_model()
                        except _caught():
                            continue
                        pf_ = live.fit_properties.get("params_fitted")
                        if pf_ is None:
                            continue
                        live.fit_properties["params_initial"] = \
                            copy.deepcopy(pf_)
                        special = True
                    elif kind == "fit":
                        try:
                            live.fit_model()
                        except _caught():
                            continue
                        if "hash" not in live.fit_properties:
                            stale_ok = False
                        if "hash" in live.fit_properties and not stale_ok:
                            oracle_checks += 1
                            h2 = read_hash(live)
                            probes["H2 stored hash compared"] += 1
                            if live.fit_properties["hash"] != h2:
                                violation = viol(
                                    "H2", "stored-vs-recomputed", feats,
                                    f"hash stored by fit_model "
                                    f"{live.fit_properties['hash']} != hash "
                                    f"recomputed from the stored settings "
                                    f"{h2}", i)
                                break
                        continue
            except _caught() as e:
                # a set that the FitProperties logic rejects (e.g. wrong
                # parameter set) is not part of the walk
                log.append({"i": i, "op": kind, "exc": type(e).__name__})
                if kind in ("pipeline", "init"):
                    # a failed request leaves the raw data: the harness's
                    # perturbations have to be put back
                    apply_perturb(live, perturb)
                continue
            executed += 1
            if "params_initial" not in live.fit_properties or \
                    live.fit_properties["params_initial"] is None:
                live.fit_properties["params_initial"] = default_params(
                    live.fit_properties.get("model_key", "hertz_para"))
            # ---- read the hash of this state ----------------------------
            try:
                c = canon(live)
            except KeyError:
                # axis column not available in this state
                log.append({"i": i, "op": kind, "state": "no-axis"})
                continue
            from nanite.fit import FitKeyError
            try:
                h = read_hash(live)
            except FitKeyError:
                # invalid combination of settings (sanity checks of the
                # fitter): not a state the hash is defined for
                log.append({"i": i, "op": kind, "state": "invalid"})
                continue
            except _caught() as e:
                violation = viol(
                    "H1", f"hash-raises:{type(e).__name__}", feats,
                    f"computing the hash raised {type(e).__name__}: {e}", i)
                break
            if "hash" not in live.fit_properties:
                stale_ok = False
            g = seams.changed_global()
            if g is not None:
                violation = viol(
                    "H1", f"shared-defaults-modified:{g}", feats,
                    f"the module-level table {g} was modified: the hash of "
                    f"default settings now depends on what happened "
                    f"earlier in this process", i)
                break
            # H2b: a stored hash that survived this step must still be the
            # hash of the stored settings (every change of a setting,
            # parameter attributes included, has to drop it)
            if "hash" in live.fit_properties and not stale_ok and \
                    kind in ("set", "param", "repr", "model", "pipeline"):
                oracle_checks += 1
                probes["H2b surviving stored hash compared"] += 1
                if live.fit_properties["hash"] != h:
                    violation = viol(
                        "H2", "survived-a-change", feats,
                        f"after this step the curve still shows the hash "
                        f"{live.fit_properties['hash']}, the stored settings "
                        f"hash to {h}", i)
                    break
            if kind == "set" and op_probe is not None and not stale_ok:
                probes["H2 stored hash compared (fit_model(**kw) route)"] += 1
                oracle_checks += 1
                if op_probe != h:
                    violation = viol(
                        "H2", "stored-vs-recomputed", feats,
                        f"hash stored by fit_model({op['key']}=...) "
                        f"{op_probe} != hash recomputed from the stored "
                        f"settings {h}", i)
                    break
            # ---- fresh object, other order, other representations --------
            hf = self.fresh_hash(live, cfg, perturb, rng)
            oracle_checks += 1
            if hf != h:
                violation = viol(
                    "H1", "fresh-object", feats,
                    f"equal effective settings, different hash: live object "
                    f"{h}, fresh object with the stored settings (other "
                    f"order/representation) {hf}", i)
                break
            # ---- H4: initial parameters left to the fitter ----------------
            # "no initial parameters" means the fitter's own guess: a fitter
            # created without any, a fitter given that guess explicitly and
            # fit_model() without any describe the same fit
            if op.get("implicit"):
                hn, guess = self.fresh_hash(live, cfg, perturb, rng, "none")
                bad = None
                if guess is not None:
                    hg = self.fresh_hash(live, cfg, perturb, rng, "guess",
                                         guess)
                    oracle_checks += 1
                    probes["H4 implicit initial parameters compared"] += 1
                    if hn != hg:
                        bad = ("fitter-without-parameters", hn,
                               "its own choice passed explicitly", hg)
                    elif op["implicit"] == "fit_model":
                        hm, pm = self.fresh_hash(live, cfg, perturb, rng,
                                                 "fit_model")
                        if hm is not None and pm is not None and \
                                params_state(pm) == params_state(guess) \
                                and hm != hn:
                            bad = ("fit_model-without-parameters", hm,
                                   "fitter without parameters", hn)
                if bad:
                    feats["route"] = bad[0]
                    violation = viol(
                        "H1", "implicit-parameters", feats,
                        f"equal effective settings, different hash: {bad[0]} "
                        f"{bad[1]} vs {bad[2]} {bad[3]}", i)
                    break
            # ---- H1 against every earlier state --------------------------
            for (c0, h0, i0, k0) in states:
                oracle_checks += 1
                if (c0 == c) != (h0 == h):
                    if c0 == c:
                        site = "same-settings-different-hash"
                        msg = (f"states {i0} and {i} have equal effective "
                               f"settings but hashes {h0} / {h}")
                    else:
                        site = "different-settings-same-hash"
                        msg = (f"states {i0} ({k0}) and {i} ({kind} "
                               f"{feats['key']}) differ in effective "
                               f"settings but share the hash {h}")
                    feats["other_op"] = k0
                    violation = viol("H1", site, feats, msg, i)
                    break
            if violation:
                break
            if kind in ("repr",) or (
                    kind == "set" and any(c0 == c for c0, *_ in states)):
                special = True
                probes["representation-only / don't-care step"] += 1
            states.append((c, h, i, f"{kind}:{feats['key']}"))
            rets.append(h)
            log.append({"i": i, "op": kind, "canon": c, "hash": h})
        ncanon = len(set(c for c, *_ in states))
        return {"violation": violation, "log_digest": core.digest(log),
                "log": log, "rets": rets, "probes": dict(probes),
                "faults": {}, "states": sorted(set(c for c, *_ in states)),
                "nontrivial": ncanon >= 3 and special,
                "oracle_checks": oracle_checks, "ops_executed": executed}

    def fresh_hash(self, live, cfg, perturb, rng, pinit_mode="explicit",
                   guess=None):
        """Hash of a freshly built object that gets the live object's stored
        settings in another order and other representations.

        `pinit_mode`: "explicit" - the stored initial parameters; "none" -
        no initial parameters at all (the fitter fills in its guess; returns
        hash and that guess); "guess" - the given `guess`, passed
        explicitly; "fit_model" - like "none", but hash and parameters are
        those fit_model() stores."""
        from nanite.fit import FP_DEFAULT
        fp = live.fit_properties
        cfg_f = cfg
        if cfg.get("kind") == "synthetic" and rng.random() < 0.5:
            # the same data under another file name and enumeration
            cfg_f = dict(cfg, path="/somewhere/else/copy of it.h5",
                         enum=int(cfg.get("enum", 0)) + 3)
        f = curves.make_curve(cfg_f)
        with warnings.catch_warnings():
            warnings.simplefilter("ignore")
            if "preprocessing" in fp:
                f.apply_preprocessing(
                    copy.deepcopy(fp["preprocessing"]),
                    with_repr(_plain(fp.get("preprocessing_options", {})),
                              rng.choice([None, "revdict"])))
            apply_perturb(f, perturb)
            # model and parameters first and by the same route (a model
            # change resets the parameters, by design)
            kw = {}
            mk = fp.get("model_key", FP_DEFAULT["model_key"])
            if pinit_mode != "explicit":
                from nanite.fit import IndentationFitter
                f.fit_properties["model_key"] = mk
                keys = [k for k in SETTING_KEYS if k in fp
                        and k not in ("model_key", "params_initial")]
                for k in keys:
                    kw[k] = _plain(fp[k])
                try:
                    if pinit_mode == "none":
                        # -> (hash, the parameters this fitter decided on)
                        ft = IndentationFitter(f, **kw)
                        return ft.hash, copy.deepcopy(
                            ft.fp["params_initial"])
                    if pinit_mode == "guess":
                        f.fit_properties["params_initial"] = \
                            copy.deepcopy(guess)
                        return read_hash(f, **kw)
                except _caught() as e:
                    return (f"raises:{type(e).__name__}", None) \
                        if pinit_mode == "none" \
                        else f"raises:{type(e).__name__}"
                # "fit_model": a fit that cannot be carried out stores no
                # hash
                try:
                    f.fit_model(**kw)
                except _caught():
                    return None, None
                return f.fit_properties.get("hash"), copy.deepcopy(
                    f.fit_properties.get("params_initial"))
            pinit = rebuild_params(fp["params_initial"], rng) \
                if rng.random() < 0.6 else copy.deepcopy(
                    fp["params_initial"])
            if rng.random() < 0.25:
                # both through the fitter's keyword arguments, parameters
                # listed first (a mapping has no order that may matter)
                kw["params_initial"] = pinit
                kw["model_key"] = mk
            else:
                f.fit_properties["model_key"] = mk
                f.fit_properties["params_initial"] = pinit
            keys = [k for k in SETTING_KEYS if k in fp
                    and k not in ("model_key", "params_initial")]
            rng.shuffle(keys)
            for k in keys:
                v = with_repr(_plain(fp[k]), pick_repr(rng, k))
                if rng.random() < 0.5:
                    f.fit_properties[k] = v
                else:
                    kw[k] = v
            try:
                return read_hash(f, **kw)
            except _caught() as e:
                return f"raises:{type(e).__name__}"

    def simplify_op(self, op):
        if op.get("repr"):
            o = dict(op)
            o["repr"] = None
            yield o
        if op.get("route") == "fit_model":
            o = dict(op)
            o["route"] = "setitem"
            yield o
        if op.get("implicit"):
            o = dict(op)
            o.pop("implicit")
            yield o


def _plain(v):
    """Python-native equal value (numpy scalars, tuples normalised)."""
    if isinstance(v, (np.bool_,)):
        return bool(v)
    if isinstance(v, np.integer):
        return int(v)
    if isinstance(v, np.floating):
        return float(v)
    if isinstance(v, (list, tuple)):
        return [_plain(x) for x in v]
    if isinstance(v, dict):
        return {k: _plain(x) for k, x in v.items()}
    return copy.deepcopy(v)
