"""map-sim: loading measurement files/folders and quantitative maps under a
history of fits, ratings, edits and refits (C20, DESIGN.md 4.9)."""
import collections
import copy
import pathlib
import shutil
import warnings

import numpy as np

from . import core, curves, seams
from .core import digest_array, fhex, make_violation
from .engine_curve import (COMPONENTS, RATERS, _caught, gen_fit_kw,
                           gen_options, gen_pipeline, prep_state)
from .seams import PLAN

PIPE = ["compute_tip_position", "correct_force_offset", "correct_tip_offset"]
RECORDED = ["fmt-jpk-fd_map2x2_extracted.jpk-force-map",
            "fmt-jpk-fd_map1d_2016-11-07.jpk-force-map",
            "fmt-jpk-fd_spot3-0192.jpk-force",
            "fmt-jpk-fd_map0d_extracted.jpk-force-map",
            "fmt-afm-workshop-fd_single_2021-10-22_14.16.csv"]
FEATURES = ["fit: Young's modulus", "fit: contact point", "fit: rating"]
E_MODELS = ["hertz_para", "hertz_cone", "hertz_pyr3s",
            "sneddon_spher_approx"]


def write_nospring(path, cfg, innate_tip):
    """afmformats-HDF5 file whose curve lacks the spring constant."""
    import h5py
    c = dict(cfg, path=str(path), enum=0)
    if innate_tip:
        c["innate_tip"] = True
    idnt = curves.make_curve(c)
    md = dict(idnt.metadata)
    md.pop("spring constant", None)
    md["enum"] = 0
    with h5py.File(path, "w") as h5:
        idnt._export_hdf5(h5group=h5, metadata_dict=md)
    return path


class MapEngine:
    prop = "C20"
    components = {
        "real": ["nanite.group / nanite.read / nanite.qmap", "afmformats "
                 "readers (JPK force, JPK force map, AFM workshop csv, "
                 "afmformats-HDF5) on real files in a scratch folder",
                 "nanite fitting and rating of the map's curves"],
        "stubbed": ["nothing; only nanite's three 'fit:' map features are "
                    "read (afmformats' 'data:' features cache by id() "
                    "process-wide)"],
    }
    assumptions = [
        "ground truth for 'one object per recorded curve in file order' is "
        "what afmformats' own loader yields for the same file",
        "synthetic maps are afmformats-HDF5 files written with afmformats' "
        "exporter (<= 10 curves per file: the reader orders group keys "
        "lexicographically)",
        "where a rating is older than the current fit the statement is "
        "silent: the last rating or NaN are both accepted",
        "models without a parameter 'E' are left out",
    ]
    rule_text = (
        "seeded scratch folders (synthetic HDF5 maps with seeded shape, scan "
        "order and missing pixels, multi-curve files, recorded JPK curves / "
        "maps / csv, files without spring constant with and without innate "
        "tip position) loaded through load_group / IndentationGroup / QMap "
        "with callbacks and metadata overrides, then histories (4-14 ops) of "
        "fit / rate / edit / re-preprocess / refit on the map's curves with "
        "get_qmap of the three fit features in between; L1 after every "
        "load, L2 after every get_qmap. distinct = op-list digest; "
        "non-trivial = a map read after a curve was refitted, edited or "
        "re-rated")

    # ---------------------------------------------------------------- gen
    def gen_map(self, rng):
        nx, ny = rng.choice([(2, 2), (3, 2), (1, 4), (4, 1), (3, 3), (2, 5)])
        pix = [(ix, iy) for iy in range(ny) for ix in range(nx)]
        order = rng.choice(["row", "col", "snake", "random"])
        if order == "col":
            pix = [(ix, iy) for ix in range(nx) for iy in range(ny)]
        elif order == "snake":
            pix = []
            for iy in range(ny):
                row = [(ix, iy) for ix in range(nx)]
                pix += row if iy % 2 == 0 else row[::-1]
        elif order == "random":
            rng.shuffle(pix)
        # missing pixels
        if rng.random() < 0.5 and len(pix) > 2:
            for _ in range(rng.randint(1, max(1, len(pix) // 3))):
                pix.pop(rng.randrange(len(pix)))
        pix = pix[:10]
        cfgs = []
        for k in range(len(pix)):
            c = curves.gen_curve_cfg(rng, allow_recorded=False)
            c["n"] = rng.choice([80, 120, 650])
            c.pop("n_retract", None)
            cfgs.append(c)
        return {"kind": "synmap", "shape": [nx, ny],
                "pixels": [list(p) for p in pix], "curves": cfgs}

    def generate(self, rng, tier, index):
        files = []
        nfiles = rng.choice([1, 2, 3])
        for _ in range(nfiles):
            r = rng.random()
            if r < 0.45:
                files.append(self.gen_map(rng))
            elif r < 0.6:
                cfgs = []
                for _ in range(rng.randint(1, 4)):
                    c = curves.gen_curve_cfg(rng, allow_recorded=False)
                    c["n"] = rng.choice([80, 120])
                    c.pop("n_retract", None)
                    cfgs.append(c)
                files.append({"kind": "synmulti", "curves": cfgs})
            elif r < 0.85:
                files.append({"kind": "recorded",
                              "file": rng.choice(RECORDED)})
            else:
                c = curves.gen_curve_cfg(rng, allow_recorded=False)
                c["n"] = 80
                c.pop("n_retract", None)
                files.append({"kind": "nospring", "curve": c,
                              "innate_tip": rng.random() < 0.5})
        if not any(f["kind"] == "synmap" or (
                f["kind"] == "recorded" and "map" in f["file"]
                and "map0d" not in f["file"]) for f in files):
            files.append(self.gen_map(rng))
        nops = rng.choice([4, 6, 8, 10] if tier == "quick"
                          else [6, 10, 14])
        ops = []
        # loads first
        for _ in range(rng.randint(1, 3)):
            tgt = rng.choice(["folder"] + list(range(len(files))))
            op = {"op": rng.choice(["load_group", "load_group", "group"]),
                  "target": tgt, "callback": rng.random() < 0.7}
            if rng.random() < 0.35:
                op["meta_override"] = {"spring constant":
                                       rng.choice([0.03, 0.11])}
            elif rng.random() < 0.25:
                # overrides whose value is zero are values like any other
                op["meta_override"] = rng.choice(
                    [{"position x": 0.0}, {"setpoint": 0.0},
                     {"position x": 0.0, "position y": 0.0},
                     {"duration": 0.0}])
            if rng.random() < 0.2:
                # documented setting: do not restrict the modality
                op["modality_none"] = True
            if op["op"] == "group" and tgt == "folder":
                op["op"] = "load_group"
            ops.append(op)
        if rng.random() < 0.4:
            ops.append({"op": "paths_enum",
                        "corrupt": rng.choice([None, "aa", "zz", "mm"]),
                        "skip_errors": rng.random() < 0.8})
        if rng.random() < 0.3:
            ops.append({"op": "append_same_path"})
        if rng.random() < 0.5:
            # append a curve without spring constant / tip position to a
            # populated group: must be refused and leave the group alone
            ops.append({"op": "append_refused",
                        "target": rng.randrange(len(files)),
                        "how": rng.choice(["append", "append", "add",
                                           "iadd"]),
                        "innate_tip": rng.random() < 0.3})
        maps = [i for i, f in enumerate(files) if f["kind"] == "synmap" or (
            f["kind"] == "recorded" and "map" in f["file"]
            and "map0d" not in f["file"])]
        if rng.random() < 0.3:
            # first another map of a hand-assembled group (a subset of the
            # curves, in another order), read once
            ops.append({"op": "qmap", "file": rng.choice(maps),
                        "via": "assembled", "select": rng.sample(
                            range(12), rng.randint(2, 6))})
            ops.append({"op": "fit_all", "kw": {}})
            ops.append({"op": "get_qmap",
                        "feature": "fit: Young's modulus"})
        ops.append({"op": "qmap", "file": rng.choice(maps),
                    "via": rng.choice(["path", "group", "load_group",
                                       "assembled"]),
                    "select": rng.sample(range(12), rng.randint(2, 6)),
                    "callback": rng.random() < 0.5})
        while len(ops) < nops + 2:
            r = rng.random()
            j = rng.randrange(10)
            if r < 0.3:
                kw = gen_fit_kw(rng, nkeys=rng.choice([0, 1, 1, 2]))
                if kw.get("model_key") not in (None,) + tuple(E_MODELS):
                    kw["model_key"] = rng.choice(E_MODELS)
                if kw.get("optimal_fit_edelta"):
                    kw["optimal_fit_num_samples"] = 7
                if rng.random() < 0.12:
                    # multi-pass fit whose last pass has no points
                    kw = {"model_key": rng.choice(E_MODELS),
                          "range_type": "relative cp",
                          "range_x": [-1e-12, 1e-12]}
                ops.append({"op": "fit", "curve": j, "kw": kw,
                            "prep": rng.random() < 0.8})
            elif r < 0.42:
                ops.append({"op": "fit_all",
                            "kw": {"model_key": rng.choice(E_MODELS)}})
            elif r < 0.55:
                ops.append({"op": "rate", "curve": j, "kw": rng.choice(
                    [{}, {"regressor": "Decision Tree"},
                     {"regressor": "none"},
                     {"regressor": "Extra Trees", "lda": False}])})
            elif r < 0.65:
                kw = gen_fit_kw(rng, nkeys=1)
                kw.pop("model_key", None)
                kw.pop("params_initial", None)
                if kw:
                    k = sorted(kw)[0]
                    ops.append({"op": "edit", "curve": j, "key": k,
                                "value": kw[k]})
            elif r < 0.73:
                if rng.random() < 0.35:
                    from .engine_curve import gen_invalid_request
                    steps, options = gen_invalid_request(rng)
                else:
                    steps = gen_pipeline(rng)
                    options = gen_options(rng, steps)
                ops.append({"op": "prep", "curve": j, "steps": steps,
                            "options": options})
            else:
                ops.append({"op": "get_qmap",
                            "feature": rng.choice(FEATURES)})
        if rng.random() < 0.3:
            # directed: fit and rate one curve, then one event that ends the
            # life of that rating (rotating with the run index), then the
            # rating map
            from .engine_curve import gen_invalid_request
            j = rng.randrange(10)
            ops.append({"op": "fit", "curve": j, "prep": True,
                        "kw": {"model_key": rng.choice(E_MODELS)}})
            ops.append({"op": "rate", "curve": j, "kw": rng.choice(
                [{}, {"regressor": "Decision Tree"}])})
            if rng.random() < 0.5:
                ops.append({"op": "refit_params", "curve": j,
                            "factor": rng.choice([0.5, 2.0])})
            elif rng.random() < 0.6:
                ops.append({"op": "fit", "curve": j, "prep": False,
                            "kw": {"range_x": [-1e-6, 2e-7]}})
                ops.append({"op": "edit", "curve": j, "key": "range_x",
                            "value": None, "nudge": rng.choice([8e-9,
                                                                -6e-9])})
            ev = ["refused", "pipeline", "refit", "edit", "none",
                  "none"][index % 6]
            if ev == "refused":
                st_, o_ = gen_invalid_request(rng)
                ops.append({"op": "prep", "curve": j, "steps": st_,
                            "options": o_})
            elif ev == "pipeline":
                ops.append({"op": "prep", "curve": j, "options": None,
                            "steps": ["compute_tip_position",
                                      "correct_tip_offset"]})
            elif ev == "refit":
                ops.append({"op": "fit", "curve": j, "prep": False,
                            "kw": {"weight_cp": 1e-6}})
            elif ev == "edit":
                ops.append({"op": "edit", "curve": j, "key": "gcf_k",
                            "value": 0.5})
            ops.append({"op": "get_qmap", "feature": "fit: rating"})
        ops.append({"op": "get_qmap", "feature": rng.choice(FEATURES)})
        subdir = rng.choice(["data", "data", "data", ".cache/data",
                             "a/.snapshot/data", "x/../data"])
        return {"config": {"files": files, "subdir": subdir}, "ops": ops}

    # ------------------------------------------------------------ execute
    track_history = True

    def execute(self, run):
        seams.install_curve_seams()
        seams.install_lmfit_determinism()
        seams.install_rater_memo(RATERS)
        import logging
        logging.disable(logging.CRITICAL)   # afmformats logs reader errors
        try:
            if run.get("history") and not run.get("_child"):
                # replay of a finding that depends on what this worker had
                # executed before (process-wide caches)
                for h in run["history"]:
                    with core.Scratch("c20") as scratch:
                        self._execute(h, scratch)
            with core.Scratch("c20") as scratch:
                return self._execute(run, scratch)
        finally:
            logging.disable(logging.NOTSET)

    def build_files(self, cfg, folder):
        paths = []
        for n, f in enumerate(cfg["files"]):
            if f["kind"] == "synmap":
                nx, ny = f["shape"]
                grid = []
                for ix, iy in f["pixels"]:
                    grid.append({
                        "grid index x": ix, "grid index y": iy,
                        "grid shape x": nx, "grid shape y": ny,
                        "grid size x": nx * 1e-6, "grid size y": ny * 1e-6,
                        "grid center x": 0.0, "grid center y": 0.0,
                        "position x": (ix + .5) * 1e-6 - nx * .5e-6,
                        "position y": (iy + .5) * 1e-6 - ny * .5e-6})
                p = curves.write_afm_hdf5(folder / f"f{n}_map.h5",
                                          f["curves"], grid)
            elif f["kind"] == "synmulti":
                p = curves.write_afm_hdf5(folder / f"f{n}_multi.h5",
                                          f["curves"])
            elif f["kind"] == "recorded":
                p = folder / f"f{n}_{f['file']}"
                shutil.copy(curves.DATA / f["file"], p)
            else:
                p = write_nospring(folder / f"f{n}_nospring.h5", f["curve"],
                                   f["innate_tip"])
            paths.append(p)
        return paths

    def truth(self, path, meta_override):
        """What afmformats' own loader yields for a file."""
        import afmformats
        with warnings.catch_warnings():
            warnings.simplefilter("ignore")
            data = afmformats.load_data(path, meta_override=meta_override,
                                        modality="force-distance")
        return [(d.enum, len(d), digest_array(np.asarray(d["force"])),
                 ("spring constant" in d.metadata) or ("tip position" in d))
                for d in data]

    def _execute(self, run, scratch):
        import afmformats
        import nanite
        from afmformats.errors import MissingMetaDataError
        from nanite.qmap import DataMissingWarning
        cfg = run["config"]
        # some users keep data below a hidden directory (~/.cache/...), or
        # give a path with '..' in it
        folder = scratch / cfg.get("subdir", "data")
        folder.mkdir(parents=True)
        paths = self.build_files(cfg, folder)
        log = []
        probes = collections.Counter()
        states = set()
        violation = None
        executed = 0
        touched = self._touched = set()
        oracle_checks = 0
        qm = None
        grp = None
        ref = {}        # curve index -> {"rating": value|None, "stale":..}
        changed_after_read = False
        read_once = False
        nontrivial = False

        def viol(rule, site, feats, msg, i):
            return make_violation(self.prop, rule, site, feats, msg, i)

        def check_load(loaded, targets, override, cbvals, feats, i):
            """L1 for one load."""
            exp = []
            for p in targets:
                for t in self.truth(p, override):
                    exp.append((p, t))
            if len(loaded) != len(exp):
                return viol("L1", "curve-count", feats,
                            f"{len(loaded)} objects for {len(exp)} recorded "
                            f"curves", i)
            seen = collections.defaultdict(set)
            for k, (d, (p, t)) in enumerate(zip(loaded, exp)):
                if not isinstance(d, nanite.Indentation):
                    return viol("L1", "class", feats,
                                f"object {k} is a {type(d).__name__}", i)
                if pathlib.Path(d.path) != pathlib.Path(p) or \
                        d.enum != t[0] or len(d) != t[1] or \
                        digest_array(np.asarray(d["force"])) != t[2]:
                    return viol("L1", "order-or-content", feats,
                                f"object {k} is not curve {t[0]} of "
                                f"{pathlib.Path(p).name}", i)
                if d.enum in seen[str(p)]:
                    return viol("L1", "enum-not-unique", feats,
                                f"enum {d.enum} twice in {p}", i)
                seen[str(p)].add(d.enum)
                if override:
                    for mk, mv in override.items():
                        if d.metadata.get(mk) != mv:
                            return viol(
                                "L1", "meta-override-lost", feats,
                                f"metadata override {mk}={mv} not applied "
                                f"(got {d.metadata.get(mk)})", i)
            if cbvals is not None:
                ok = all(0 <= v <= 1 for v in cbvals) and all(
                    b >= a for a, b in zip(cbvals, cbvals[1:]))
                if not ok:
                    return viol("L1", "callback", feats,
                                f"progress callback values {cbvals[:12]} "
                                f"are not non-decreasing within [0, 1]", i)
                if exp and not cbvals:
                    return viol("L1", "callback-never-called", feats,
                                "callback was never called", i)
            return None

        for i, op in enumerate(run["ops"]):
            kind = op["op"]
            feats = {"op": kind}
            executed += 1
            with warnings.catch_warnings(record=True) as wlist:
                warnings.simplefilter("always")
                try:
                    if kind in ("load_group", "group"):
                        tgt = op["target"]
                        override = op.get("meta_override")
                        cb = [] if op.get("callback") else None
                        if tgt == "folder":
                            target = folder
                            files = [pathlib.Path(x) for x in
                                     afmformats.find_data(
                                         folder, modality="force-distance")]
                        else:
                            target = paths[tgt % len(paths)]
                            files = [target]
                        feats["target"] = "folder" if tgt == "folder" else \
                            cfg["files"][tgt % len(paths)]["kind"]
                        feats["override"] = bool(override)
                        # ground truth from afmformats' own loader; a
                        # metadata override the format reader does not
                        # support is the dependency's limit, not nanite's
                        try:
                            tr = [t for p in files
                                  for t in self.truth(p, override)]
                        except _caught() as e:
                            probes["override unsupported by the format "
                                   "reader"] += 1
                            try:
                                if kind == "load_group":
                                    nanite.load_group(
                                        target, meta_override=copy.deepcopy(
                                            override))
                                else:
                                    nanite.IndentationGroup(
                                        target, meta_override=copy.deepcopy(
                                            override))
                            except _caught() as e2:
                                if type(e2) is not type(e):
                                    violation = viol(
                                        "L1", "reader-error-changed", feats,
                                        f"afmformats raises "
                                        f"{type(e).__name__}, nanite "
                                        f"{type(e2).__name__}", i)
                                    break
                            continue
                        expect_refusal = not all(t[3] for t in tr)
                        exc = None
                        import nanite.read as nread
                        saved_mod = nread.DEFAULT_MODALITY
                        if op.get("modality_none"):
                            nread.DEFAULT_MODALITY = None
                            feats["modality_none"] = True
                        try:
                            if kind == "load_group":
                                g = nanite.load_group(
                                    target,
                                    callback=cb.append if cb is not None
                                    else None,
                                    meta_override=copy.deepcopy(override))
                            else:
                                g = nanite.IndentationGroup(
                                    target,
                                    callback=cb.append if cb is not None
                                    else None,
                                    meta_override=copy.deepcopy(override))
                        except MissingMetaDataError as e:
                            exc = e
                        finally:
                            nread.DEFAULT_MODALITY = saved_mod
                        oracle_checks += 1
                        if expect_refusal:
                            probes["curve without spring constant and tip "
                                   "position"] += 1
                            if exc is None:
                                violation = viol(
                                    "L1", "accepted-without-spring-constant",
                                    feats, "a curve with neither spring "
                                    "constant nor tip position was "
                                    "accepted", i)
                                break
                            continue
                        if exc is not None:
                            violation = viol(
                                "L1", "refused-loadable", feats,
                                f"loading raised MissingMetaDataError "
                                f"although every curve has a spring "
                                f"constant or a tip position: {exc}", i)
                            break
                        v = check_load(list(g), files, override, cb, feats,
                                       i)
                        probes["load checked"] += 1
                        if v:
                            violation = v
                            break
                        log.append({"i": i, "op": kind, "n": len(g),
                                    "cb": cb})
                    elif kind == "paths_enum":
                        import nanite.read as nread
                        # a listing of (path, enum) for every curve; a file
                        # that cannot be read is skipped on request
                        extra = None
                        if op.get("corrupt"):
                            # a tab-separated export whose last row breaks
                            # off in the middle of a number: accepted by
                            # afmformats.find_data, rejected when loaded
                            tmp = scratch / "export_src.tab"
                            curves.make_curve(
                                {"kind": "synthetic", "model": "hertz_para",
                                 "n": 40, "noise": 0.0, "seed": 1,
                                 "path": str(tmp)}).export_data(tmp,
                                                                fmt="tab")
                            rows = tmp.read_text().rstrip("\n").split("\n")
                            extra = folder / f"{op['corrupt']}_broken.tab"
                            extra.write_text(
                                "\n".join(rows[:-1]) + "\n"
                                + rows[-1][:len(rows[-1]) // 2] + "e-\n")
                        files = [pathlib.Path(x) for x in
                                 afmformats.find_data(
                                     folder, modality="force-distance")]
                        exp, bad = [], 0
                        for fpath in files:
                            try:
                                for t in self.truth(fpath, None):
                                    exp.append([pathlib.Path(fpath), t[0]])
                            except _caught():
                                bad += 1
                        feats["unreadable_files"] = bad
                        feats["skip_errors"] = bool(op.get("skip_errors"))
                        oracle_checks += 1
                        try:
                            got = nread.get_data_paths_enum(
                                folder, skip_errors=bool(
                                    op.get("skip_errors")))
                            exc = None
                        except _caught() as e:
                            got, exc = None, e
                        finally:
                            if extra is not None:
                                extra.unlink()
                        probes["path/enum listing compared"] += 1
                        if bad and not op.get("skip_errors"):
                            if exc is None:
                                violation = viol(
                                    "L1", "listing-ignored-unreadable-file",
                                    feats, "an unreadable file did not "
                                    "raise although skip_errors is off", i)
                                break
                        elif exc is not None:
                            violation = viol(
                                "L1", f"listing-raises:{type(exc).__name__}",
                                feats, f"get_data_paths_enum raised "
                                f"{type(exc).__name__}: {str(exc)[:120]}", i)
                            break
                        elif [[pathlib.Path(a), int(b)] for a, b in got] \
                                != [[a, int(b)] for a, b in exp]:
                            violation = viol(
                                "L1", "listing-differs", feats,
                                f"get_data_paths_enum lists {len(got)} "
                                f"entries, the files hold {len(exp)} curves "
                                f"(or in another order)", i)
                            break
                    elif kind == "append_same_path":
                        # the same file once loaded with a spring constant
                        # given as override, once without: the second curve
                        # has neither spring constant nor tip position
                        csvp = folder / "same_path.csv"
                        shutil.copy(curves.DATA / RECORDED[4], csvp)
                        try:
                            g = nanite.IndentationGroup(
                                csvp, meta_override={"spring constant":
                                                     0.05})
                            cand = afmformats.load_data(
                                csvp, modality="force-distance",
                                data_classes_by_modality={
                                    "force-distance": nanite.Indentation})[0]
                        except _caught():
                            csvp.unlink()
                            continue
                        n0 = len(g)
                        oracle_checks += 1
                        try:
                            g.append(cand)
                            raised = False
                        except MissingMetaDataError:
                            raised = True
                        csvp.unlink()
                        has = ("spring constant" in cand.metadata
                               or "tip position" in cand)
                        probes["append of a curve sharing its path"] += 1
                        if not has and (not raised or len(g) != n0):
                            violation = viol(
                                "L1", "accepted-without-spring-constant",
                                dict(feats, same_path=True),
                                "a curve with neither spring constant nor "
                                "tip position was accepted because another "
                                "curve of the same file is in the group", i)
                            break
                    elif kind == "append_refused":
                        import afmformats
                        tp = paths[op["target"] % len(paths)]
                        try:
                            g = nanite.IndentationGroup(tp)
                        except MissingMetaDataError:
                            continue
                        n0 = len(g)
                        ids0 = [id(x) for x in g]
                        cpath = write_nospring(
                            scratch / f"append_{i}.h5",
                            {"kind": "synthetic", "model": "hertz_para",
                             "n": 60, "noise": 0.0, "seed": 1},
                            op.get("innate_tip", False))
                        cand = afmformats.load_data(
                            cpath, modality="force-distance",
                            data_classes_by_modality={
                                "force-distance": nanite.Indentation})[0]
                        feats["innate_tip"] = bool(op.get("innate_tip"))
                        oracle_checks += 1
                        how = op.get("how", "append")
                        feats["how"] = how
                        if how in ("add", "iadd") and \
                                not op.get("innate_tip"):
                            # the other ways to put a curve into a group:
                            # whatever they return, no IndentationGroup may
                            # hold the uncalibrated curve afterwards
                            try:
                                if how == "add":
                                    g2 = g + [cand]
                                else:
                                    g2 = g
                                    g2 += [cand]
                            except _caught():
                                g2 = g
                            held = [x for x in (g, g2) if isinstance(
                                x, nanite.IndentationGroup)
                                and any(y is cand for y in x)]
                            probes[f"uncalibrated curve offered via {how}"] \
                                += 1
                            if held:
                                violation = viol(
                                    "L1", "accepted-without-spring-constant",
                                    feats, f"after 'group {how} [curve]' an "
                                    f"IndentationGroup holds a curve with "
                                    f"neither spring constant nor tip "
                                    f"position", i)
                                break
                            continue
                        try:
                            g.append(cand)
                            raised = False
                        except MissingMetaDataError:
                            raised = True
                        if op.get("innate_tip"):
                            if raised or len(g) != n0 + 1:
                                violation = viol(
                                    "L1", "append-refused-with-tip", feats,
                                    "a curve with an innate tip position "
                                    "was refused", i)
                                break
                        else:
                            probes["append of a curve without spring "
                                   "constant refused"] += 1
                            if not raised:
                                violation = viol(
                                    "L1", "accepted-without-spring-constant",
                                    feats, "append accepted a curve with "
                                    "neither spring constant nor tip "
                                    "position", i)
                                break
                            if len(g) != n0 or [id(x) for x in g] != ids0:
                                violation = viol(
                                    "L1", "refused-curve-in-group", feats,
                                    f"the refused curve changed the group "
                                    f"({n0} -> {len(g)} members)", i)
                                break
                    elif kind == "qmap":
                        p = paths[op["file"] % len(paths)]
                        cb = [] if op.get("callback") else None
                        if op["via"] == "path":
                            qm = nanite.QMap(p, callback=cb.append
                                             if cb is not None else None)
                        elif op["via"] == "group":
                            own = nanite.IndentationGroup(p)
                            qm = nanite.QMap(own)
                        elif op["via"] == "assembled":
                            # the caller assembles a group by hand
                            src_ = nanite.IndentationGroup(p)
                            own = nanite.IndentationGroup()
                            seen_ = []
                            for j_ in op.get("select", [0, 1]):
                                j_ = j_ % len(src_)
                                if j_ not in seen_:
                                    seen_.append(j_)
                                    own.append(src_[j_])
                            qm = nanite.QMap(own)
                        else:
                            own = nanite.load_group(p)
                            qm = nanite.QMap(own)
                        # the caller goes on working with its own group
                        # object (the map shows that group)
                        grp = qm.group if op["via"] == "path" else own
                        ref = {k: {"rating": None, "stale": False,
                                   "raw_prep": core.digest([None, None])}
                               for k in range(len(grp))}
                        # (a hand-assembled subset is the caller's doing,
                        # not the loader's)
                        v = None if op["via"] == "assembled" else \
                            check_load(list(grp), [p], None,
                                       cb if op["via"] == "path" else None,
                                       feats, i)
                        oracle_checks += 1
                        if v:
                            violation = v
                            break
                        log.append({"i": i, "op": "qmap", "n": len(grp)})
                    elif qm is None:
                        continue
                    elif kind in ("fit", "fit_all"):
                        idx = range(len(grp)) if kind == "fit_all" else \
                            [op["curve"] % len(grp)]
                        for k in idx:
                            d = grp[k]
                            before = d.fit_properties.get("hash")
                            prep_before = prep_state(d)
                            try:
                                if op.get("prep", True):
                                    d.apply_preprocessing(list(PIPE))
                                d.fit_model(**copy.deepcopy(op["kw"]))
                            except _caught():
                                pass
                            self.after_change(d, ref[k], before,
                                              prep_before)
                        if read_once:
                            changed_after_read = True
                    elif kind == "rate":
                        k = op["curve"] % len(grp)
                        d = grp[k]
                        try:
                            val = d.rate_quality(**copy.deepcopy(op["kw"]))
                        except _caught():
                            continue
                        if op["kw"].get("regressor", "x").lower() != "none":
                            ref[k]["rating"] = float(val)
                            ref[k]["stale"] = False
                            ref[k]["hash"] = d.fit_properties.get("hash")
                        if read_once:
                            changed_after_read = True
                    elif kind == "refit_params":
                        # documented workflow on a map curve: get the
                        # parameters, edit them in place, fit again
                        k = op["curve"] % len(grp)
                        d = grp[k]
                        before = d.fit_properties.get("hash")
                        prep_before = prep_state(d)
                        try:
                            p_ = d.get_initial_fit_parameters()
                            p_["E"].set(value=float(p_["E"].value)
                                        * op["factor"], vary=False)
                            d.fit_model(params_initial=p_)
                        except _caught():
                            pass
                        self.after_change(d, ref[k], before, prep_before)
                        if read_once:
                            changed_after_read = True
                    elif kind == "edit":
                        k = op["curve"] % len(grp)
                        d = grp[k]
                        before = d.fit_properties.get("hash")
                        prep_before = prep_state(d)
                        try:
                            val_ = copy.deepcopy(op["value"])
                            if op.get("nudge") and op["key"] == "range_x":
                                # the stored interval moved by nanometres
                                cur_ = d.fit_properties.get("range_x",
                                                            [0, 0])
                                val_ = [float(cur_[0]) + op["nudge"],
                                        float(cur_[1])]
                            d.fit_properties[op["key"]] = val_
                            if op.get("nudge"):
                                d.fit_model()
                        except _caught():
                            pass
                        self.after_change(d, ref[k], before, prep_before)
                        if read_once:
                            changed_after_read = True
                    elif kind == "prep":
                        k = op["curve"] % len(grp)
                        d = grp[k]
                        before = d.fit_properties.get("hash")
                        prep_before = prep_state(d)
                        try:
                            d.apply_preprocessing(
                                copy.deepcopy(op["steps"]),
                                copy.deepcopy(op.get("options")))
                        except _caught():
                            pass
                        self.after_change(d, ref[k], before, prep_before)
                        if prep_state(d) == prep_before and \
                                ref[k]["rating"] is not None:
                            # a request was made but the remembered pipeline
                            # is what it was (skipped as unchanged, or
                            # refused on a never-preprocessed curve): the
                            # statement does not say whether the rating
                            # survives that - both answers are accepted
                            ref[k]["stale"] = True
                        if read_once:
                            changed_after_read = True
                except _caught() as e:
                    feats["exc"] = type(e).__name__
                    violation = viol(
                        "L1" if kind in ("load_group", "group", "qmap")
                        else "L2", f"{kind}-raises:{type(e).__name__}",
                        feats, f"{kind} raised {type(e).__name__}: "
                        f"{str(e)[:200]}", i)
                    break
            if kind != "get_qmap" or qm is None:
                continue
            # ---------------- L2: read the map ----------------------------
            feat = op["feature"]
            feats["feature"] = feat
            with warnings.catch_warnings(record=True) as wl:
                warnings.simplefilter("always")
                try:
                    x, y, got = qm.get_qmap(feat)
                except _caught() as e:
                    violation = viol("L2", f"get_qmap-raises:"
                                     f"{type(e).__name__}", feats,
                                     f"get_qmap({feat!r}) raised "
                                     f"{type(e).__name__}: {e}", i)
                    break
            nwarn = sum(1 for w in wl
                        if issubclass(w.category, DataMissingWarning))
            oracle_checks += 1
            read_once = True
            if changed_after_read:
                nontrivial = True
            nx, ny = qm.shape
            exp = np.full((int(ny), int(nx)), np.nan)
            alt = exp.copy()      # second accepted answer (stale rating)
            exp_warn = 0
            alt_warn = 0
            for k, d in enumerate(grp):
                ix = int(d.metadata["grid index x"])
                iy = int(d.metadata["grid index y"])
                if not (0 <= ix < int(nx) and 0 <= iy < int(ny)):
                    violation = viol(
                        "L2", "shape", feats,
                        f"map shape {(int(ny), int(nx))} has no pixel for "
                        f"curve {k} at grid index (y={iy}, x={ix})", i)
                    break
                fp = d.fit_properties
                if feat.startswith("fit: Young") or feat.endswith("point"):
                    if fp.get("success", False) and "params_fitted" in fp:
                        p = fp["params_fitted"]
                        v = p["E"].value if feat.startswith("fit: Young") \
                            else p["contact_point"].value * 1e9
                        exp[iy, ix] = alt[iy, ix] = v
                        probes["pixel with current fit"] += 1
                    else:
                        exp_warn += 1
                        alt_warn += 1
                        probes["pixel of unfitted curve"] += 1
                else:
                    r = ref[k]
                    if r["rating"] is None:
                        exp_warn += 1
                        alt_warn += 1
                    else:
                        exp[iy, ix] = r["rating"]
                        if r["stale"]:
                            alt_warn += 1       # NaN + warning accepted
                            probes["pixel with rating older than fit"] += 1
                        else:
                            alt[iy, ix] = r["rating"]
                        probes["pixel with rating"] += 1
            if violation:
                break
            # "current" means: of the settings the curve holds now. One
            # curve per map request is refitted from scratch (reloaded
            # from its file, stored settings applied once)
            cand = [d for d in grp if d.fit_properties.get("success")
                    and "hash" in d.fit_properties]
            if cand and not violation:
                d = cand[(i + len(cand)) % len(cand)]
                recent_ = [x for x in cand if id(x) in touched]
                if recent_:
                    # prefer a curve that was worked on since the last look
                    d = recent_[-1]
                touched.clear()
                v = self.check_current(d, feats, i)
                oracle_checks += 1
                if v == "skip":
                    pass
                elif v:
                    violation = v
                else:
                    probes["map curve refitted from scratch"] += 1
            if violation:
                break
            ok1 = digest_array(got) == digest_array(exp) and \
                nwarn == exp_warn
            ok2 = digest_array(got) == digest_array(alt) and \
                nwarn == alt_warn
            if got.shape != exp.shape:
                violation = viol("L2", "shape", feats,
                                 f"map shape {got.shape} != {exp.shape}", i)
                break
            if not (ok1 or ok2):
                bad = np.argwhere(~((got == exp) | (np.isnan(got)
                                                    & np.isnan(exp))))
                if len(bad):
                    site = "pixel-value"
                    yy, xx = bad[0]
                    msg = (f"{feat}: pixel [y={yy}, x={xx}] is "
                           f"{got[yy, xx]!r}, expected {exp[yy, xx]!r} from "
                           f"that curve's current fit/rating")
                else:
                    site = "warning-count"
                    msg = (f"{feat}: {nwarn} DataMissingWarning(s), "
                           f"expected {exp_warn}")
                violation = viol("L2", site, feats, msg, i)
                break
            probes["map compared"] += 1
            states.add(core.digest([feat, int(np.isnan(exp).sum()),
                                    exp.shape]))
            log.append({"i": i, "op": "get_qmap", "feature": feat,
                        "map": digest_array(got), "warn": nwarn})
        return {"violation": violation, "log_digest": core.digest(log),
                "log": log, "probes": dict(probes), "faults": {},
                "states": sorted(states), "nontrivial": nontrivial,
                "oracle_checks": oracle_checks, "ops_executed": executed}

    def check_current(self, d, feats, i):
        import nanite
        from .engine_curve import stored_settings
        S = stored_settings(d)
        try:
            with warnings.catch_warnings():
                warnings.simplefilter("ignore")
                g2 = nanite.IndentationGroup(d.path)
                f = [c for c in g2 if c.enum == d.enum][0]
                if "preprocessing" in S:
                    f.apply_preprocessing(
                        S["preprocessing"],
                        S.get("preprocessing_options", {}))
                f.fit_model(**{k: v for k, v in S.items() if k not in (
                    "preprocessing", "preprocessing_options")})
        except Exception:
            return "skip"
        a = d.fit_properties.get("params_fitted")
        b = f.fit_properties.get("params_fitted")
        if a is None or b is None:
            return "skip"
        for k in ("E", "contact_point"):
            if k in a and k in b and a[k].value != b[k].value:
                return make_violation(
                    self.prop, "L2", "not-the-current-fit",
                    dict(feats, param=k),
                    f"the curve at enum {d.enum} shows {k}={a[k].value!r}; "
                    f"the same curve reloaded and fitted with the settings "
                    f"it stores gives {b[k].value!r}", i)
        return None

    def after_change(self, d, r, hash_before, prep_before):
        """Reference bookkeeping for the rating of one curve."""
        self._touched.add(id(d))
        prep_after = prep_state(d)
        raw_after = core.digest([d.fit_properties.get("preprocessing"),
                                 d.fit_properties.get(
                                     "preprocessing_options")])
        first_explicit = r.get("raw_prep") not in (None, raw_after) \
            and prep_after == prep_before
        r["raw_prep"] = raw_after
        if first_explicit and r["rating"] is not None:
            # the (empty) pipeline was requested explicitly for the first
            # time: whether that counts as a preprocessing change is not
            # said; the last rating and NaN are both accepted
            r["stale"] = True
            return
        if prep_after != prep_before:
            # "since its last preprocessing change"
            r["rating"] = None
            r["stale"] = False
        elif r["rating"] is not None and \
                d.fit_properties.get("hash") != r.get("hash"):
            r["stale"] = True
        # (once both answers are accepted for a rating it stays that way
        # until the curve is rated again or re-preprocessed)

    def simplify_op(self, op):
        if op.get("meta_override"):
            o = dict(op)
            o.pop("meta_override")
            yield o
        if op["op"] == "fit" and op.get("kw"):
            for k in sorted(op["kw"]):
                o = copy.deepcopy(op)
                o["kw"].pop(k)
                yield o
