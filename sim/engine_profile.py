"""profile-sim: the command-line profile as durable state across "restarts",
the interactive setup driven by scripted answers, and the batch fit that
consumes the profile (C19, DESIGN.md 4.8)."""
import atexit
import builtins
import collections
import contextlib
import copy
import io
import json
import math
import os
import pathlib
import shutil
import sys
import tempfile
import warnings

import numpy as np

from . import core, curves, seams
from .core import fhex, make_violation
from .engine_curve import _caught, STEPS

_CFG_HOME = None

HEADERS = ["Define preprocessing:", "Select model number:",
           "Set fit parameters:", "Select range type",
           "Select fitting interval:", "Suppress residuals near contact",
           "Select training set:", "Select rating regressor:"]


def cli():
    """Import nanite.cli with a process-private configuration directory
    (PROFILE_PATH and the default arguments that use it are bound at import
    time)."""
    global _CFG_HOME
    if _CFG_HOME is None:
        if "nanite.cli.profile" in sys.modules:
            import nanite.cli.profile as prof
            _CFG_HOME = pathlib.Path(prof.PROFILE_PATH).parent.parent
        else:
            base = "/dev/shm" if os.access("/dev/shm", os.W_OK) else None
            _CFG_HOME = pathlib.Path(tempfile.mkdtemp(
                prefix=f"verif-cfg-{os.getpid()}-", dir=base))
            os.environ["XDG_CONFIG_HOME"] = str(_CFG_HOME)
            pid = os.getpid()

            def cleanup(d=_CFG_HOME, pid=pid):
                if os.getpid() == pid:
                    shutil.rmtree(d, ignore_errors=True)
            atexit.register(cleanup)
    os.environ.setdefault("MPLBACKEND", "Agg")
    import nanite.cli.profile as prof
    import nanite.cli.rating as rating
    if not str(prof.PROFILE_PATH).startswith(str(_CFG_HOME)):
        raise core.HarnessError(
            f"profile path {prof.PROFILE_PATH} is not under the scratch "
            f"configuration directory {_CFG_HOME}")
    return prof, rating


def complete_training_set(path):
    """Usable training-set directory: response plus every continuous
    feature file (what rating loads)."""
    from nanite.rate.rater import IndentationRater
    d = pathlib.Path(path)
    if not d.is_dir() or not (d / "train_response.txt").exists():
        return False
    names = IndentationRater.get_feature_names(which_type="continuous")
    return all((d / f"train_{n}.txt").exists() for n in names)


def afmformats_find(folder):
    import afmformats
    return afmformats.find_data(folder, modality="force-distance")


def model_keys():
    from nanite import model
    return sorted(model.models_available.keys())


def reg_names():
    from nanite.rate import reg_names as rn
    return list(rn)


def step_ids():
    from nanite import preproc
    return [pp.identifier for pp in preproc.PREPROCESSORS]


def defaults():
    prof, _ = cli()
    return copy.deepcopy(prof.DEFAULTS)


def jnorm(v):
    """What a value looks like after a JSON round trip (what 'returned
    unchanged' can mean for a JSON profile)."""
    if isinstance(v, pathlib.Path):
        return str(v)
    if isinstance(v, tuple):
        return [jnorm(x) for x in v]
    if isinstance(v, list):
        return [jnorm(x) for x in v]
    if isinstance(v, dict):
        return {str(k): jnorm(x) for k, x in v.items()}
    return v


def same(a, b):
    if isinstance(a, float) and isinstance(b, float):
        return (a == b) or (a != a and b != b)
    if isinstance(a, bool) != isinstance(b, bool):
        return False
    if isinstance(a, (list, tuple)) and isinstance(b, (list, tuple)):
        return len(a) == len(b) and all(same(x, y) for x, y in zip(a, b))
    if isinstance(a, dict) and isinstance(b, dict):
        return set(a) == set(b) and all(same(a[k], b[k]) for k in a)
    if isinstance(a, (int, float)) and isinstance(b, (int, float)):
        return float(a) == float(b) and type(a) is type(b)
    return a == b and type(a) is type(b)


def veq(a, b):
    """Equal by value (int 0 == float 0.0), recursively."""
    if isinstance(a, bool) or isinstance(b, bool):
        return a is b or (isinstance(a, bool) and isinstance(b, bool)
                          and a == b)
    if isinstance(a, (int, float)) and isinstance(b, (int, float)):
        return float(a) == float(b) or (a != a and b != b)
    if isinstance(a, (list, tuple)) and isinstance(b, (list, tuple)):
        return len(a) == len(b) and all(veq(x, y) for x, y in zip(a, b))
    if isinstance(a, dict) and isinstance(b, dict):
        return set(a) == set(b) and all(veq(a[k], b[k]) for k in a)
    return a == b


def legacy_text(ref, numeric_segment=False):
    """The reference dict rendered in the pre-2.0 key=value format."""
    lines = []
    for k in sorted(ref):
        v = ref[k]
        if k == "preprocessing_options":
            continue   # did not exist in the legacy format
        if k == "segment" and not numeric_segment:
            # oldest files name the segment, later ones number it
            v = {0: "approach", 1: "retract"}.get(v, v)
        elif isinstance(v, list):
            v = ",".join(str(x) for x in v)
        lines.append(f"{k} = {v}")
    return "\n".join(lines) + "\n"


class ScriptedInput:
    """Stands in for input(): answers according to the section header that
    setup_profile printed last and to the prompt text."""

    def __init__(self, script, out):
        self.script = copy.deepcopy(script)
        self.out = out
        self.asked = []
        self.n = 0

    def section(self):
        text = self.out.getvalue()
        best, pos = None, -1
        for h in HEADERS:
            p = text.rfind(h)
            if p > pos:
                best, pos = h, p
        return best

    def __call__(self, prompt=""):
        self.n += 1
        if self.n > 200:
            raise core.HarnessError("setup_profile does not terminate")
        self.out.write(prompt)
        sec = self.section()
        s = self.script
        ans = ""
        if sec == HEADERS[0]:
            pp = s.setdefault("preprocessing", [])
            ans = pp.pop(0) if pp else ""
        elif sec == HEADERS[1]:
            ans = "" if s.get("model") is None else str(s["model"])
            s["model"] = None
        elif sec == HEADERS[2]:
            pl = s.setdefault("params", [])
            if prompt.startswith("- initial value for"):
                self._pi = getattr(self, "_pi", -1) + 1
                cur = pl[self._pi] if self._pi < len(pl) else {}
                ans = cur.get("value") or ""
            else:
                cur = pl[self._pi] if self._pi < len(pl) else {}
                vs = cur.setdefault("vary", [])
                ans = vs.pop(0) if vs else ""
        elif sec == HEADERS[3]:
            rt = s.setdefault("range_type", [])
            ans = rt.pop(0) if rt else ""
        elif sec == HEADERS[4]:
            if prompt.startswith("left"):
                ans = s.get("left") or ""
            else:
                ans = s.get("right") or ""
        elif sec == HEADERS[5]:
            ans = s.get("weight_cp") or ""
        elif sec == HEADERS[6]:
            ts = s.setdefault("training_set", [])
            ans = ts.pop(0) if ts else ""
        elif sec == HEADERS[7]:
            ans = "" if s.get("regressor") is None else str(s["regressor"])
            s["regressor"] = None
        self.asked.append((sec, prompt, ans))
        self.out.write(ans + "\n")
        return ans


class ProfileEngine:
    prop = "C19"
    track_history = True
    components = {
        "real": ["nanite.cli.profile (Profile, setup_profile), "
                 "nanite.cli.rating (fit_data, fit_perform), "
                 "nanite.cli.plotting (matplotlib Agg, tifffile)",
                 "the profile file on a real file system under a scratch "
                 "XDG_CONFIG_HOME", "afmformats readers on real files"],
        "stubbed": ["builtins.input -> scripted answers", "sys.argv",
                    "sys.stdout captured"],
    }
    assumptions = [
        "'restart' = every Profile object is dropped and a new one is "
        "created on the same file",
        "'returned unchanged' is read modulo the JSON data model (tuple -> "
        "list, pathlib.Path -> str)",
        "legacy rendering: key = value lines, lists comma separated, "
        "segment approach/retract, fit-parameter lines 'fit param E value = "
        "50' / 'fit param E vary = True'; preprocessing_options did not "
        "exist in that format",
        "scripted answers stay inside the documented domain of each prompt "
        "(indices in range, numbers inside the parameter bounds)",
        "answer 'relative' to the range-type prompt may be stored as "
        "'relative' or 'relative cp' (F4); F5 decides whether the batch fit "
        "accepts it",
    ]
    rule_text = (
        "seeded histories (3-9 ops) over set / get / restart / "
        "get_fit_params / write-legacy-file / setup(script: each prompt "
        "answered or skipped, invalid-then-valid answers for looping "
        "prompts) / fit_perform on a scratch data folder of 1-2 curves; "
        "reference dict with the documented defaults; F1-F5. distinct = "
        "op-list digest; non-trivial = at least one restart or setup after "
        "a write, or a batch fit")

    # ---------------------------------------------------------------- gen
    def gen_value(self, rng, key):
        if key == "model_key":
            return rng.choice(["hertz_para", "hertz_cone", "hertz_pyr3s",
                               "sneddon_spher_approx",
                               "power_layer_clifford_2009"])
        if key == "preprocessing":
            return rng.choice([
                ["compute_tip_position", "correct_force_offset",
                 "correct_tip_offset"],
                ["compute_tip_position", "correct_tip_offset"],
                ["compute_tip_position", "correct_force_offset",
                 "correct_tip_offset", "correct_split_approach_retract"],
                ["compute_tip_position", "correct_tip_offset",
                 "correct_force_slope", "correct_force_offset"]])
        if key == "preprocessing_options":
            return rng.choice([
                {}, {"correct_tip_offset": {"method":
                                            "gradient_zero_crossing"}},
                {"correct_force_slope": {"region": "baseline",
                                         "strategy": "shift"}}])
        if key == "range_type":
            return rng.choice(["absolute", "relative cp"])
        if key == "range_x":
            return rng.choice([[0, 0], [0.0, 0.0], [-1e-6, 5e-7],
                               [-2e-6, 1e-6], [-5e-7, 0.0],
                               [-1.23456e-6, 4.5e-10],
                               [-7.7777e-7, 1.00004e-6]])
        if key == "segment":
            return rng.choice([0, 1])
        if key == "weight_cp":
            return rng.choice([5e-7, 0, 0.0, 1e-6, 2.5e-7])
        if key == "rating regressor":
            return rng.choice(["Extra Trees", "Decision Tree",
                               "Random Forest", "SVR (linear kernel)"])
        if key == "rating training set":
            return "zef18"
        raise KeyError(key)

    def gen_script(self, rng):
        nsteps = len(STEPS)
        s = {}
        if rng.random() < 0.6:
            # step numbers follow the registration order: 1 tip position,
            # 2 force offset, 3 force slope, 4 tip offset, 5 split, 6 smooth
            seq = []
            if rng.random() < 0.4:
                seq.append(rng.choice(["1,2,3", "4,1", "3", "1,5,3", "7",
                                       "0,1", "x", "1,,2"]))
            # (sometimes the rejected answer is followed by an empty line:
            # the prompt is skipped, nothing changes)
            if not (seq and rng.random() < 0.35):
                seq.append(rng.choice(
                    ["1,2,4", "1,4", "1,2,4,5", "1,4,2", "1,4,3,2",
                     "1,2,4,6", "1", "2,1,4", "1,4,3,5,6",
                     # valid (every prerequisite is met) although a step
                     # comes before one it would "optionally" follow:
                     # stored as typed
                     "1,2,4,3", "6,1,2", "1,4,5,3", "6,1,4", "1,2,4,6,5"]
                    # selections that satisfy every prerequisite but do
                    # not compute the tip position (the batch fit needs
                    # that column unless the data bring it along)
                    + (["2", "2,6"] if rng.random() < 0.25 else [])))
            s["preprocessing"] = seq
        if rng.random() < 0.6:
            # sorted keys: 1 hertz_cone 2 hertz_para 3 hertz_pyr3s
            # 4 power_layer_clifford_2009 5 sneddon_spher 6 sneddon_spher_
            # approx; 5 is the external iterative model (seconds per fit)
            s["model"] = rng.choice([1, 2, 3, 4, 6])
        params = []
        for _ in range(8):
            p = {}
            if rng.random() < 0.3:
                p["value_choice"] = rng.randrange(3)
            if rng.random() < 0.4:
                seq = []
                if rng.random() < 0.3:
                    seq.append(rng.choice(["yes", "1", "maybe"]))
                seq.append(rng.choice(["true", "false", "True", "FALSE",
                                       " true "]))
                p["vary"] = seq
            params.append(p)
        s["params"] = params
        if rng.random() < 0.6:
            seq = []
            if rng.random() < 0.3:
                seq.append(rng.choice(["relative cp", "abs", "Relative"]))
            seq.append(rng.choice(["absolute", "relative", "relative"]))
            s["range_type"] = seq
        if rng.random() < 0.5:
            s["left"] = rng.choice(["-1", "-0.5", "-2.5", "0",
                                    "-1.23456"])
        if rng.random() < 0.5:
            s["right"] = rng.choice(["0.5", "1", "0", "2", "0.00045"])
        if rng.random() < 0.5:
            s["weight_cp"] = rng.choice(["0.5", "1", "0", "0.25"])
        if rng.random() < 0.4:
            seq = []
            if rng.random() < 0.5:
                seq.append(rng.choice(["nonexistent_label_xyz",
                                       "/no/such/dir", "@incomplete",
                                       "@incomplete"]))
            seq.append(rng.choice(["zef18", "@copy", "@hash"]))
            s["training_set"] = seq
        if rng.random() < 0.5:
            s["regressor"] = rng.randint(1, 7)
        return s

    def generate(self, rng, tier, index):
        nops = rng.choice([3, 4, 5, 6] if tier == "quick"
                          else [4, 6, 8, 9])
        keys = ["model_key", "preprocessing", "preprocessing_options",
                "range_type", "range_x", "segment", "weight_cp",
                "rating regressor", "rating training set"]
        ops = []
        with_fit = rng.random() < (0.45 if tier == "quick" else 0.6)
        while len(ops) < nops:
            r = rng.random()
            if r < 0.3:
                k = rng.choice(keys)
                ops.append({"op": "set", "key": k,
                            "value": self.gen_value(rng, k)})
            elif r < 0.4:
                p = rng.choice(["E", "R", "nu", "contact_point", "baseline",
                                "alpha"])
                if rng.random() < 0.5:
                    # values strictly inside the parameter's bounds
                    ops.append({"op": "set", "key": f"fit param {p} value",
                                "value": int(float(self.SAFE[p][0]))
                                if (p in ("E", "alpha")
                                    and rng.random() < 0.2) else
                                float(rng.choice(self.SAFE[p]))})
                else:
                    ops.append({"op": "set", "key": f"fit param {p} vary",
                                "value": rng.random() < 0.5})
            elif r < 0.45:
                ops.append({"op": "set_bad", "key": rng.choice(
                    ["range_x", "segment", "preprocessing"]),
                    "kind": rng.choice(["ndarray", "npint", "set",
                                        "bytes"])})
            elif r < 0.5:
                ops.append({"op": "get", "key": rng.choice(keys)})
            elif r < 0.62:
                ops.append({"op": "restart"})
            elif r < 0.72:
                ops.append({"op": "get_fit_params"})
            elif r < 0.8:
                ops.append({"op": "legacy", "numeric": rng.random() < 0.5})
            else:
                ops.append({"op": "setup", "script": self.gen_script(rng)})
                if "@hash" in ops[-1]["script"].get("training_set", []) \
                        and rng.random() < 0.7:
                    # the profile is then kept in the old text format
                    ops.append({"op": "legacy",
                                "numeric": rng.random() < 0.5})
                    ops.append({"op": "get", "key": "rating training set"})
        for op in ops:
            if op["op"] in ("set", "get", "get_fit_params", "restart",
                            "set_bad"):
                op["via"] = rng.randrange(3)
        if with_fit:
            if rng.random() < 0.35:
                # a batch fit, a profile change, and another batch fit into
                # the same results folder
                ops.append({"op": "fit_perform"})
                k = rng.choice(["weight_cp", "model_key", "range_x"])
                ops.append({"op": "set", "key": k,
                            "value": self.gen_value(rng, k)})
            ops.append({"op": "fit_perform"})
        if index % 11 == 6:
            # directed (run index alone): batch fit with a user training
            # set, the training set regenerated in place, batch fit again
            # in the same process
            ops = [{"op": "setup", "script": {
                        "training_set": ["@copy"],
                        "regressor": 1 + (index // 11) % 7}},
                   {"op": "fit_perform"},
                   {"op": "regen_training"},
                   {"op": "fit_perform"}]
        data = []
        for _ in range(rng.choice([1, 1, 2])):
            c = curves.gen_curve_cfg(rng, allow_recorded=False, big=True)
            c["n"] = rng.choice([650, 700])
            c.pop("n_retract", None)
            data.append(c)
        return {"config": {"data": data, "multi": rng.random() < 0.4,
                           "jpk": rng.random() < 0.15}, "ops": ops}

    # ------------------------------------------------------------ execute
    def execute(self, run):
        seams.install_curve_seams()      # evaluation budget cap
        seams.install_lmfit_determinism()
        prof, rating = cli()
        path = pathlib.Path(prof.PROFILE_PATH)
        if path.exists():
            path.unlink()
        rating.fit_data.cache_clear()
        from nanite.rate import io as rio
        rio.hash_file.cache_clear()
        argv = sys.argv
        sys.argv = ["nanite-setup-profile"]
        try:
            if run.get("history") and not run.get("_child"):
                # replay of a finding that depends on what this worker
                # executed before (e.g. a process-wide cache)
                for h in run["history"]:
                    if path.exists():
                        path.unlink()
                    with core.Scratch("c19") as scratch:
                        self._execute(h, scratch, prof, rating, path)
                    rating.fit_data.cache_clear()
                if path.exists():
                    path.unlink()
            with core.Scratch("c19") as scratch:
                return self._execute(run, scratch, prof, rating, path)
        finally:
            sys.argv = argv
            if path.exists():
                path.unlink()
            rating.fit_data.cache_clear()

    def _execute(self, run, scratch, prof, rating, path):
        ref = defaults()          # what the profile must hold
        explicit = {}             # fit param entries explicitly stored
        log = []
        probes = collections.Counter()
        states = set()
        violation = None
        executed = 0
        oracle_checks = 0
        wrote = False
        nontrivial = False
        # several Profile objects are alive at the same time (the batch fit
        # does the same: its own object plus one per curve)
        pfs = [prof.Profile(path), prof.Profile(path), prof.Profile(path)]
        pf = pfs[0]

        def viol(rule, site, feats, msg, i):
            return make_violation(self.prop, rule, site, feats, msg, i)

        def read_all(i, feats):
            """F1: a new Profile returns the reference for every key."""
            try:
                p2 = prof.Profile(path)
            except _caught() as e:
                return viol("F1", f"read-raises:{type(e).__name__}", feats,
                            f"a new Profile on the file raised "
                            f"{type(e).__name__}: {str(e)[:150]}", i)
            for k in sorted(ref):
                try:
                    got = p2[k]
                except _caught() as e:
                    return viol("F1", f"read-raises:{type(e).__name__}",
                                dict(feats, key=k),
                                f"reading {k!r} raised {type(e).__name__}: "
                                f"{e}", i)
                if not same(got, jnorm(ref[k])):
                    return viol("F1", f"value:{k}", dict(feats, key=k),
                                f"profile returns {got!r} for {k!r}, "
                                f"stored was {ref[k]!r}", i)
            try:
                raw = json.loads(path.read_text())
            except ValueError as e:
                return viol("F1", "file-unreadable", feats,
                            f"the profile file is not valid JSON any more: "
                            f"{e}", i)
            for k, v in explicit.items():
                if k not in raw or not same(raw[k], jnorm(v)):
                    return viol("F1", "value:fit-param", dict(feats, key=k),
                                f"profile file holds {raw.get(k)!r} for "
                                f"{k!r}, stored was {v!r}", i)
            return None

        for i, op in enumerate(run["ops"]):
            kind = op["op"]
            feats = {"op": kind}
            executed += 1
            if "via" in op:
                pf = pfs[op["via"] % len(pfs)]
                feats["via"] = op["via"] % len(pfs)
            try:
                with warnings.catch_warnings():
                    warnings.simplefilter("ignore")
                    if kind == "set":
                        pf[op["key"]] = copy.deepcopy(op["value"])
                        if op["key"].startswith("fit param"):
                            explicit[op["key"]] = op["value"]
                        else:
                            ref[op["key"]] = op["value"]
                        wrote = True
                    elif kind == "set_bad":
                        bad = {"ndarray": np.array([-1e-6, 1e-6]),
                               "npint": np.int64(1),
                               "set": {"compute_tip_position"},
                               "bytes": b"abc"}[op["kind"]]
                        feats["kind"] = op["kind"]
                        try:
                            pf[op["key"]] = bad
                            stored_bad = True
                        except TypeError:
                            stored_bad = False
                        probes["write of a value JSON cannot encode"] += 1
                        if stored_bad:
                            # an implementation may convert and store it
                            ref[op["key"]] = jnorm(
                                pf.load().get(op["key"]))
                        # refused or not: everything stored before must
                        # still be readable (read_all below)
                    elif kind == "get":
                        got = pf[op["key"]]
                        oracle_checks += 1
                        if not same(got, jnorm(ref[op["key"]])):
                            violation = viol(
                                "F1", f"value:{op['key']}",
                                dict(feats, key=op["key"]),
                                f"get returned {got!r}, reference "
                                f"{ref[op['key']]!r}", i)
                            break
                    elif kind == "restart":
                        pf = None
                        pfs[op.get("via", 0) % len(pfs)] = prof.Profile(path)
                        pf = pfs[op.get("via", 0) % len(pfs)]
                        if wrote:
                            nontrivial = True
                        probes["restart"] += 1
                    elif kind == "get_fit_params":
                        v = self.check_fit_params(pf, ref, explicit, feats, i)
                        oracle_checks += 1
                        if v:
                            violation = v
                            break
                        probes["get_fit_params compared"] += 1
                    elif kind == "legacy":
                        full = dict(ref)
                        full.update(explicit)
                        path.write_text(legacy_text(
                            full, numeric_segment=bool(op.get("numeric"))))
                        # options do not exist in the legacy format: the
                        # default applies afterwards
                        ref["preprocessing_options"] = {}
                        feats["fit_param_lines"] = bool(explicit)
                        pfs[:] = [prof.Profile(path) for _ in pfs]
                        pf = pfs[0]
                        # F2 'same values': numbers compare by value (the
                        # text format has no int/float distinction)
                        loaded = pf.load()
                        for k in list(ref):
                            if k in loaded and veq(loaded[k], ref[k]):
                                ref[k] = loaded[k]
                        for k in list(explicit):
                            if k in loaded and veq(loaded[k], explicit[k]):
                                explicit[k] = loaded[k]
                        probes["legacy file loaded"] += 1
                        wrote = True
                        nontrivial = True
                    elif kind == "setup":
                        v = self.do_setup(prof, path, op["script"], ref,
                                          explicit, scratch, feats, i,
                                          probes)
                        oracle_checks += 1
                        if v:
                            violation = v
                            break
                        wrote = True
                        nontrivial = True
                    elif kind == "regen_training":
                        # the user's training set is generated anew into
                        # the same directory (what nanite-generate-training-
                        # set does): responses turned upside down
                        d = pathlib.Path(str(ref["rating training set"]))
                        if d.is_dir() and str(d).startswith(str(scratch)):
                            rp = d / "train_response.txt"
                            np.savetxt(rp, 10 - np.loadtxt(rp), fmt="%.2e")
                            probes["training set regenerated in place"] += 1
                        continue
                    elif kind == "fit_perform":
                        v = self.do_fit(run, scratch, prof, rating, path,
                                        ref, explicit, feats, i, probes)
                        oracle_checks += 1
                        nontrivial = True
                        if v:
                            violation = v
                            break
                        continue
            except _caught() as e:
                feats["exc"] = type(e).__name__
                rule = {"legacy": "F2", "setup": "F4",
                        "get_fit_params": "F3"}.get(kind, "F1")
                violation = viol(
                    rule, f"{kind}-raises:{type(e).__name__}", feats,
                    f"{kind} raised {type(e).__name__}: {e}", i)
                break
            v = read_all(i, feats)
            oracle_checks += 1
            if v:
                if kind == "legacy":
                    v["rule"] = "F2"
                violation = v
                break
            nref = json.loads(json.dumps(ref, default=str).replace(
                str(scratch), "<scratch>"))
            states.add(core.digest([nref, sorted(explicit)]))
            log.append({"i": i, "op": kind,
                        "state": core.digest([nref, explicit])})
        return {"violation": violation, "log_digest": core.digest(log),
                "log": log, "probes": dict(probes), "faults": {},
                "states": sorted(states), "nontrivial": nontrivial,
                "oracle_checks": oracle_checks, "ops_executed": executed}

    # ------------------------------------------------------------ helpers
    def expected_params(self, ref, explicit):
        from nanite import model
        p = model.get_init_parms(ref["model_key"])
        for name in p:
            vk, fk = f"fit param {name} value", f"fit param {name} vary"
            if vk in explicit:
                p[name].value = explicit[vk]
            if fk in explicit:
                p[name].vary = explicit[fk]
        return p

    def check_fit_params(self, pf, ref, explicit, feats, i):
        exp = self.expected_params(ref, explicit)
        got = pf.get_fit_params()
        if list(got) != list(exp):
            return make_violation(self.prop, "F3", "param-names", feats,
                                  f"parameters {list(got)} != {list(exp)}",
                                  i)
        for n in exp:
            a, b = got[n], exp[n]
            if not (same(float(a.value), float(b.value))
                    and a.vary == b.vary and a.min == b.min
                    and a.max == b.max and a.expr == b.expr):
                return make_violation(
                    self.prop, "F3", f"param:{n}", dict(feats, param=n),
                    f"get_fit_params gives {n}: value {a.value} vary "
                    f"{a.vary}, expected value {b.value} vary {b.vary}", i)
        # write-through: all entries are now stored explicitly
        for n in exp:
            explicit[f"fit param {n} value"] = exp[n].value
            explicit[f"fit param {n} vary"] = exp[n].vary
        return None

    SAFE = {"E": ["2000", "5e3", "1.5e4"], "R": ["5e-6", "1e-5", "8e-6"],
            "nu": ["0.45", "0.5", "0.4"], "alpha": ["20", "25", "15"],
            "contact_point": ["0", "1e-7", "-1e-7"],
            "baseline": ["0", "1e-11", "-1e-11"]}

    @staticmethod
    def valid_selection(ans):
        """Reference semantics of the preprocessing prompt."""
        from nanite import preproc
        steps = step_ids()
        try:
            idx = [int(x) for x in ans.split(",")]
        except ValueError:
            return None
        if not idx or min(idx) < 1 or max(idx) > len(steps):
            return None
        new = [steps[j - 1] for j in idx]
        for jj, pid in enumerate(new):
            req = preproc.get_steps_required(pid)
            if req and not set(req) <= set(new[:jj]):
                return None
        return new

    def do_setup(self, prof, path, script, ref, explicit, scratch, feats, i,
                 probes):
        from nanite import model
        script = copy.deepcopy(script)
        # parameter answers are given by position; pick values that lie
        # inside the bounds of the parameter that will be asked for
        mk = ref["model_key"] if script.get("model") is None \
            else model_keys()[script["model"] - 1]
        for j, n in enumerate(model.get_init_parms(mk)):
            if j < len(script.get("params", [])):
                sp = script["params"][j]
                ch = sp.pop("value_choice", None)
                if ch is not None and n in self.SAFE:
                    sp["value"] = self.SAFE[n][ch]
        for sp in script.get("params", []):
            sp.pop("value_choice", None)
        # resolve symbolic training set answers
        ts = []
        for a in script.get("training_set", []):
            if a == "@copy":
                from nanite.rate.rater import IndentationRater
                d = scratch / "ts_user"
                if not d.exists():
                    shutil.copytree(
                        IndentationRater.get_training_set_path("zef18"), d)
                a = str(d)
            elif a == "@hash":
                # a user directory with '#' and '=' in its name
                from nanite.rate.rater import IndentationRater
                d = scratch / "ts_run#2 k=3"
                if not d.exists():
                    shutil.copytree(
                        IndentationRater.get_training_set_path("zef18"), d)
                a = str(d)
            elif a == "@incomplete":
                # a directory that has the response file but lacks one of
                # the feature files: not a usable training set
                from nanite.rate.rater import IndentationRater
                d = scratch / "ts_incomplete"
                if not d.exists():
                    shutil.copytree(
                        IndentationRater.get_training_set_path("zef18"), d)
                    (d / "train_feat_con_apr_sum.txt").unlink()
                a = str(d)
            ts.append(a)
        if ts:
            script["training_set"] = ts
        out = io.StringIO()
        inp = ScriptedInput(script, out)
        real_input = builtins.input
        builtins.input = inp
        try:
            with contextlib.redirect_stdout(out):
                prof.setup_profile()
        except _caught() as e:
            feats["exc"] = type(e).__name__
            last = inp.asked[-1] if inp.asked else None
            feats["section"] = (last[0] if last else None)
            return make_violation(
                self.prop, "F4", f"setup-raises:{type(e).__name__}", feats,
                f"setup_profile raised {type(e).__name__}: {e} after the "
                f"answers {[(a[0], a[2]) for a in inp.asked][-4:]}", i)
        finally:
            builtins.input = real_input
        probes["setup run"] += 1
        # ---- what the answers mean (reference semantics of the prompts)
        steps = step_ids()
        for a in script.get("preprocessing", []):
            sel = self.valid_selection(a)
            if sel is not None:
                ref["preprocessing"] = sel
                probes["setup: preprocessing answered"] += 1
                break
            probes["setup: invalid selection re-asked"] += 1
        if script.get("model") is not None:
            ref["model_key"] = model_keys()[script["model"] - 1]
        # parameters of the (new) model, in order
        pnames = list(model.get_init_parms(ref["model_key"]))
        cur = self.expected_params(ref, explicit)
        for j, n in enumerate(pnames):
            sp = script["params"][j] if j < len(script.get("params", [])) \
                else {}
            if sp.get("value"):
                cur[n].value = float(sp["value"])
            for a in sp.get("vary", []):
                al = a.strip().lower()
                if al in ("true", "false"):
                    cur[n].vary = (al == "true")
                    break
            explicit[f"fit param {n} value"] = cur[n].value
            explicit[f"fit param {n} vary"] = cur[n].vary
        want_rt = None
        for a in script.get("range_type", []):
            if a in ("absolute", "relative"):
                want_rt = a
                break
        rx = [float(x) for x in ref["range_x"]]
        if script.get("left"):
            rx[0] = float(script["left"]) * 1e-6
        if script.get("right"):
            rx[1] = float(script["right"]) * 1e-6
        if script.get("weight_cp"):
            ref["weight_cp"] = float(script["weight_cp"]) * 1e-6
        for a in script.get("training_set", []):
            if a == "zef18" or complete_training_set(a):
                ref["rating training set"] = a
                break
        if script.get("regressor") is not None:
            ref["rating regressor"] = reg_names()[script["regressor"] - 1]
        # ---- F4: compare with what is stored ---------------------------
        raw = json.loads(path.read_text())
        if want_rt is not None:
            ok = [want_rt] if want_rt == "absolute" else ["relative",
                                                          "relative cp"]
            if raw.get("range_type") not in ok:
                return make_violation(
                    self.prop, "F4", "range_type", feats,
                    f"answered {want_rt!r}, stored "
                    f"{raw.get('range_type')!r}", i)
            ref["range_type"] = raw["range_type"]
        got_rx = raw.get("range_x")
        for j, side in enumerate(("left", "right")):
            exp = rx[j]
            if not (isinstance(got_rx, list) and len(got_rx) == 2 and
                    math.isclose(float(got_rx[j]), exp, rel_tol=1e-12,
                                 abs_tol=1e-21)):
                f2 = dict(feats, side=side,
                          left_answered=bool(script.get("left")),
                          right_answered=bool(script.get("right")))
                return make_violation(
                    self.prop, "F4", f"range_x:{side}", f2,
                    f"interval {side}: stored {got_rx}, expected "
                    f"{exp} m (answers left={script.get('left')!r} "
                    f"right={script.get('right')!r} in um)", i)
        ref["range_x"] = got_rx
        if script.get("weight_cp"):
            if not math.isclose(float(raw.get("weight_cp")),
                                ref["weight_cp"], rel_tol=1e-12,
                                abs_tol=1e-21):
                return make_violation(
                    self.prop, "F4", "weight_cp", feats,
                    f"stored weight_cp {raw.get('weight_cp')}, answered "
                    f"{script['weight_cp']} um", i)
            ref["weight_cp"] = raw["weight_cp"]
        for k in ("preprocessing", "model_key", "rating training set",
                  "rating regressor"):
            if raw.get(k) != ref[k]:
                return make_violation(
                    self.prop, "F4", f"stored:{k}", dict(feats, key=k),
                    f"after setup the profile holds {raw.get(k)!r} for "
                    f"{k!r}, the answers mean {ref[k]!r}", i)
        for k, v in explicit.items():
            n = k.split()[2]
            if n not in pnames:
                continue
            if k not in raw or not same(
                    float(raw[k]) if k.endswith("value") else raw[k],
                    float(v) if k.endswith("value") else v):
                return make_violation(
                    self.prop, "F4", "stored:fit-param", dict(feats, key=k),
                    f"after setup the profile holds {raw.get(k)!r} for "
                    f"{k!r}, the answers mean {v!r}", i)
            explicit[k] = raw[k]
        return None

    def do_fit(self, run, scratch, prof, rating, path, ref, explicit, feats,
               i, probes):
        """F5: fit_perform accepts the profile; one row per curve."""
        import tifffile
        from nanite import IndentationGroup
        cfg = run["config"]
        folder = scratch / "data"
        if folder.exists():
            shutil.rmtree(folder)
        folder.mkdir()
        files = []
        if cfg.get("multi") and len(cfg["data"]) > 1:
            files.append(curves.write_afm_hdf5(folder / "multi.h5",
                                               cfg["data"]))
        else:
            for n, c in enumerate(cfg["data"]):
                files.append(curves.write_afm_hdf5(folder / f"c{n}.h5", [c]))
        if cfg.get("jpk"):
            shutil.copy(curves.DATA / "fmt-jpk-fd_spot3-0192.jpk-force",
                        folder / "z_spot3.jpk-force")
        outdir = scratch / "results"
        outdir.mkdir(exist_ok=True)
        feats = dict(feats, model=ref["model_key"],
                     range_type=ref["range_type"],
                     regressor=ref["rating regressor"])
        rating.fit_data.cache_clear()
        out = io.StringIO()
        try:
            with contextlib.redirect_stdout(out), \
                    warnings.catch_warnings():
                warnings.simplefilter("ignore")
                rating.fit_perform(folder, outdir)
        except _caught() as e:
            feats["exc"] = type(e).__name__
            feats["missing_tip_position"] = (
                "compute_tip_position" not in ref["preprocessing"]
                and "tip position" in str(e))
            # Is it the profile that is rejected, or one particular curve
            # on which a step fails (e.g. height smoothing that does not
            # converge)? Apply the profile to a benign canonical curve, and
            # recompute the folder's curves independently.
            canon_exc = self.apply_profile(curves.make_curve(
                {"kind": "synthetic", "model": "hertz_para", "n": 700,
                 "noise": 0.01, "seed": 7}), ref, explicit)
            if canon_exc is not None and \
                    "compute_tip_position" not in ref["preprocessing"] and \
                    "tip position" in str(canon_exc):
                # the profile itself is the one without tip position, even
                # if another step failed first on this particular curve
                feats["missing_tip_position"] = True
                feats["exc"] = type(canon_exc).__name__
                return make_violation(
                    self.prop, "F5",
                    f"fit_perform-raises:{type(canon_exc).__name__}", feats,
                    f"fit_perform raised {type(e).__name__}: "
                    f"{str(e)[:120]}; on a benign curve the profile fails "
                    f"with {type(canon_exc).__name__}: "
                    f"{str(canon_exc)[:120]} (preprocessing "
                    f"{ref['preprocessing']})", i)
            if canon_exc is None:
                data_exc = None
                for pp in afmformats_find(folder):
                    for idnt in IndentationGroup(pp):
                        data_exc = data_exc or self.apply_profile(
                            idnt, ref, explicit)
                if data_exc is not None and type(data_exc) is type(e):
                    probes["batch fit stopped by a curve-specific "
                           "failure (profile fine on canonical curve)"] += 1
                    return None
            return make_violation(
                self.prop, "F5", f"fit_perform-raises:{type(e).__name__}",
                feats,
                f"fit_perform raised {type(e).__name__}: {str(e)[:200]} for "
                f"a profile with model {ref['model_key']}, range type "
                f"{ref['range_type']!r}, preprocessing "
                f"{ref['preprocessing']}", i)
        probes["batch fit run"] += 1
        # the batch fit reads the fit parameters through get_fit_params,
        # which writes every entry back into the profile (write-through)
        exp_p = self.expected_params(ref, explicit)
        for n in exp_p:
            explicit[f"fit param {n} value"] = exp_p[n].value
            explicit[f"fit param {n} vary"] = exp_p[n].vary
        # expected rows: recompute each curve independently
        import afmformats
        rows = (outdir / "statistics.tsv").read_text().splitlines()
        if not rows or rows[0].split("\t") != ["path", "enum", "E",
                                               "rating"]:
            return make_violation(self.prop, "F5", "header", feats,
                                  f"unexpected header {rows[:1]}", i)
        expected = []
        pf = prof.Profile(path, create=False)
        for pp in afmformats.find_data(folder, modality="force-distance"):
            grp = IndentationGroup(pp)
            for idnt in grp:
                with warnings.catch_warnings():
                    warnings.simplefilter("ignore")
                    idnt.apply_preprocessing(
                        copy.deepcopy(ref["preprocessing"]),
                        copy.deepcopy(ref["preprocessing_options"]))
                    idnt.fit_model(
                        model_key=ref["model_key"],
                        params_initial=self.expected_params(ref, explicit),
                        range_type=ref["range_type"],
                        range_x=copy.deepcopy(ref["range_x"]),
                        segment=ref["segment"], weight_cp=ref["weight_cp"])
                    pfit = idnt.fit_properties.get("params_fitted", {})
                    E = pfit["E"].value if "E" in pfit else float("nan")
                    rt = idnt.rate_quality(
                        training_set=ref["rating training set"],
                        regressor=ref["rating regressor"])
                expected.append([str(idnt.path), str(idnt.enum), str(E),
                                 str(round(rt, ndigits=1))])
        got = [r.split("\t") for r in rows[1:]]
        if len(got) != len(expected):
            return make_violation(
                self.prop, "F5", "row-count", feats,
                f"{len(got)} rows for {len(expected)} curves", i)
        for g, e in zip(got, expected):
            for col, (a, b) in zip(["path", "enum", "E", "rating"],
                                   zip(g, e)):
                if a != b:
                    return make_violation(
                        self.prop, "F5", f"row:{col}", dict(feats, col=col),
                        f"statistics row {g} differs from the independently "
                        f"computed {e}", i)
        with tifffile.TiffFile(outdir / "plots.tif") as tf:
            npages = len(tf.pages)
        if npages != len(expected):
            return make_violation(
                self.prop, "F5", "plot-pages", feats,
                f"plots.tif has {npages} pages for {len(expected)} curves",
                i)
        probes["statistics rows compared"] += len(expected)
        return None

    def apply_profile(self, idnt, ref, explicit):
        """Preprocess and fit one curve the way the profile says; returns
        the exception or None."""
        try:
            with warnings.catch_warnings():
                warnings.simplefilter("ignore")
                idnt.apply_preprocessing(
                    copy.deepcopy(ref["preprocessing"]),
                    copy.deepcopy(ref["preprocessing_options"]))
                idnt.fit_model(
                    model_key=ref["model_key"],
                    params_initial=self.expected_params(ref, explicit),
                    range_type=ref["range_type"],
                    range_x=copy.deepcopy(ref["range_x"]),
                    segment=ref["segment"], weight_cp=ref["weight_cp"])
        except _caught() as e:
            return e
        return None

    def simplify_op(self, op):
        if op["op"] == "setup":
            sc = op["script"]
            for k in list(sc):
                if sc.get(k):
                    o = copy.deepcopy(op)
                    if k == "params":
                        o["script"]["params"] = []
                    else:
                        o["script"].pop(k)
                    yield o
