"""registry-sim: the process-wide model registry and the interpreter's import
state under histories of register / deregister / load-from-file calls with
valid models, every single-fault mutant of a valid model module, and
un-importable files (C18, DESIGN.md 4.7)."""
import collections
import copy
import pathlib
import sys
import types
import warnings

import numpy as np

from . import core, curves, seams
from .core import digest_array, fhex, make_violation
from .engine_curve import COMPONENTS, _caught
from .seams import PLAN

REQUIRED = ["get_parameter_defaults", "model_doc", "model_func", "model_key",
            "model_name", "parameter_keys", "parameter_names",
            "parameter_units", "valid_axes_x", "valid_axes_y"]
ANC_TRIO = ["parameter_anc_keys", "parameter_anc_names",
            "parameter_anc_units"]

TEMPLATE = '''\
import lmfit
import numpy as np
{extra_import}
SIM_ID = {sim_id!r}
SCALE = {scale!r}


def get_parameter_defaults():
    params = lmfit.Parameters()
{defaults}
    return params


def model_func({args}):
    """harness model ({sim_id})"""
    aa = 4/3 * E/(1-nu**2)*np.sqrt(R) * SCALE
    root = contact_point-delta
    pos = root > 0
    bb = np.zeros_like(delta)
    bb[pos] = (root[pos])**(3/2)
    return aa*bb + baseline


{ancillaries}
{attrs}
{tail}
'''

DEFAULT_LINES = collections.OrderedDict([
    ("E", '    params.add("E", value=3e3, min=0)'),
    ("R", '    params.add("R", value=10e-6, min=0, vary=False)'),
    ("nu", '    params.add("nu", value=.5, min=0, max=0.5, vary=False)'),
    ("contact_point", '    params.add("contact_point", value=0)'),
    ("baseline", '    params.add("baseline", value=0)'),
])
KEYS = list(DEFAULT_LINES)
NAMES = ["Young's Modulus", "Tip Radius", "Poisson's Ratio", "Contact Point",
         "Force Baseline"]
UNITS = ["Pa", "m", "", "m", "N"]


def all_mutants(with_anc):
    """Every single-fault mutant of a valid module."""
    ms = []
    for a in REQUIRED:
        ms.append({"kind": "delete", "attr": a})
    if with_anc:
        for a in ANC_TRIO:
            ms.append({"kind": "delete", "attr": a})
        # the recipe itself is missing while the three lists are there
        ms.append({"kind": "delete", "attr": "compute_ancillaries"})
    for a in ("parameter_keys", "parameter_names", "parameter_units"):
        ms.append({"kind": "shorten", "attr": a})
        ms.append({"kind": "lengthen", "attr": a})
    ms.append({"kind": "dup_name"})
    # a line of the names list copied in place: one entry too many, one of
    # them twice
    ms.append({"kind": "dup_insert"})
    ms.append({"kind": "permute_defaults"})
    ms.append({"kind": "permute_defaults_late"})
    ms.append({"kind": "fewer_defaults"})
    return ms


# which error class the statement demands for a mutant (None = accepted)
def expected_error(mutant):
    from nanite.model.core import (ModelIncompleteError,
                                   ModelImplementationError, ModelError)
    if mutant is None:
        return None
    k = mutant["kind"]
    if k == "delete" and mutant.get("attr") == "compute_ancillaries":
        # the statement does not list it: a model error, or a model that is
        # accepted and can be used (without own ancillaries)
        return "either"
    if k == "delete":
        return ModelIncompleteError
    if k in ("shorten", "lengthen", "dup_name", "dup_insert",
             "permute_defaults",
             "permute_defaults_late", "fewer_defaults"):
        return ModelImplementationError
    if k == "more_defaults":
        # more defaults than keys: keys are a prefix of the defaults, which
        # the statement does not list as a fault -> either answer
        return "either"
    return ModelError


def render(spec):
    """Source text of a model module for a spec."""
    mut = spec.get("mutant")
    keys = list(KEYS)
    names, units = labels_for(spec)
    dlines = list(DEFAULT_LINES.values())
    args = "delta, E, R, nu, contact_point=0, baseline=0"
    if spec.get("argswap"):
        # legal (a warning only): the model function lists its parameters
        # in another order than parameter_keys; it is called by keyword
        args = "delta, R, E, nu, contact_point=0, baseline=0"
    if mut:
        k = mut["kind"]
        if k == "shorten":
            {"parameter_keys": keys, "parameter_names": names,
             "parameter_units": units}[mut["attr"]].pop()
        elif k == "lengthen":
            {"parameter_keys": keys, "parameter_names": names,
             "parameter_units": units}[mut["attr"]].append(
                {"parameter_keys": "extra", "parameter_names": "Extra",
                 "parameter_units": "m"}[mut["attr"]])
        elif k == "dup_name":
            names[1] = names[0]
        elif k == "dup_insert":
            names.insert(1, names[0])
        elif k == "permute_defaults":
            dlines[0], dlines[1] = dlines[1], dlines[0]
        elif k == "permute_defaults_late":
            dlines[3], dlines[4] = dlines[4], dlines[3]
        elif k == "fewer_defaults":
            dlines.pop()
        elif k == "more_defaults":
            dlines.append('    params.add("extra", value=1)')
    attrs = collections.OrderedDict()
    attrs["model_doc"] = "model_func.__doc__"
    attrs["model_key"] = repr(spec["key"])
    attrs["model_name"] = repr("harness model " + spec["key"])
    attrs["parameter_keys"] = repr(keys)
    attrs["parameter_names"] = repr(names)
    attrs["parameter_units"] = repr(units)
    attrs["valid_axes_x"] = repr(["tip position"])
    attrs["valid_axes_y"] = repr(["force"])
    anc = ""
    if spec.get("anc") is not None:
        a = spec["anc"]
        akeys = ["E", "anc_x"] + (["R"] if "R" in a else []) + (
            ["contact_point"] if "contact_point" in a else [])
        def _val(k):
            if a[k] == "data":
                # an ancillary that depends on the (preprocessed) data
                return ('(float(np.max(idnt["tip position"])) * 1e9 + 100.0'
                        ' if "tip position" in idnt else float("nan"))')
            return f"float({str(a[k])!r})"
        body = ", ".join(f"{k!r}: {_val(k)}" for k in akeys)
        if a.get("_extra"):
            # intermediate results the recipe returns without declaring
            # them (they are not ancillaries of the model)
            body += ", " + ", ".join(
                f"{k!r}: float({v!r})" for k, v in a["_extra"].items()
                if k not in akeys)
        anc = ("def compute_ancillaries(idnt):\n"
               f"    return {{{body}}}\n\n")
        attrs["parameter_anc_keys"] = repr(akeys)
        attrs["parameter_anc_names"] = repr(
            [{"E": "anc modulus", "anc_x": "anc x", "R": "anc radius",
              "contact_point": "anc contact"}[k] for k in akeys])
        attrs["parameter_anc_units"] = repr(
            [{"E": "Pa", "anc_x": "m", "R": "m", "contact_point": "m"}[k]
             for k in akeys])
    tail = ""
    deleted = None
    if mut and mut["kind"] == "delete":
        deleted = mut["attr"]
        attrs.pop(deleted, None)
        if deleted == "compute_ancillaries":
            anc = ""
        if deleted == "model_func":
            tail += "del model_func\n"
            attrs["model_doc"] = repr("doc")
        elif deleted == "get_parameter_defaults":
            tail += "del get_parameter_defaults\n"
    if spec.get("own_wrappers") and deleted != "model_func":
        tail += ("from nanite.model import residuals as _r\n"
                 "model = _r.get_default_modeling_wrapper(model_func)\n"
                 "residual = _r.get_default_residuals_wrapper(model_func)\n")
    if spec.get("own_model") and deleted != "model_func" \
            and not spec.get("own_wrappers"):
        # the module brings its own modelling wrapper (recognisable by a
        # constant offset) but leaves the residuals to the library
        tail += ("from nanite.model import residuals as _r\n"
                 "_dm = _r.get_default_modeling_wrapper(model_func)\n"
                 f"OWN_OFFSET = {spec['own_model']!r}\n\n\n"
                 "def model(params, x):\n"
                 "    return _dm(params, x) + OWN_OFFSET\n")
    extra = spec.get("prelude", "")
    src = TEMPLATE.format(
        extra_import=extra, sim_id=spec_id(spec), scale=spec.get("scale", 1.0),
        defaults="\n".join(dlines), args=args, ancillaries=anc,
        attrs="\n".join(f"{k} = {v}" for k, v in attrs.items()), tail=tail)
    return src


FAILING_STATEMENTS = [
    "x = 1 / 0", "x = an_undefined_name", "import sys\nsys.no_such_attr",
    "raise ValueError('not today')", "assert False, 'broken plugin'",
    "x = {}['missing']", "x = [][3]", "int('x')",
    "raise RuntimeError('boom')"]


def labels_for(spec):
    """Parameter names and units of a spec (a model file may be edited to
    use other labels under the same key)."""
    names, units = list(NAMES), list(UNITS)
    if spec.get("labels") == "alt":
        names[1] = "Indenter Radius"
        units[1] = "um"
        names[4] = "Offset Force"
    return names, units


def rng_suffix(op):
    return [".txt", ".py.bak", ""][op.get("stmt", 0) % 3]


def eff_anc(spec):
    """The ancillaries a model of this spec can compute."""
    mut = spec.get("mutant") or {}
    if mut.get("kind") == "delete" and \
            mut.get("attr") == "compute_ancillaries":
        return None
    return spec.get("anc")


def spec_id(spec):
    return core.digest({k: v for k, v in spec.items() if k != "stem"})


def make_module(spec):
    src = render(spec)
    mod = types.ModuleType("simmod_" + spec_id(spec))
    exec(compile(src, f"<sim model {spec['key']}>", "exec"), mod.__dict__)
    return mod


def expected_model(scale, params, delta):
    E, R, nu, cp, bl = (params[k] for k in KEYS)
    aa = 4/3 * E/(1-nu**2)*np.sqrt(R) * scale
    root = cp-delta
    pos = root > 0
    bb = np.zeros_like(delta)
    bb[pos] = (root[pos])**(3/2)
    return aa*bb + bl


class RegistryEngine:
    prop = "C18"
    components = {
        "real": ["nanite.model (registry, NaniteFitModel checks, loader)",
                 "importlib / sys.path / sys.modules of the interpreter",
                 "real model source files in a run-private scratch directory",
                 "nanite fitting for the 'behaves like shipped code' clause"],
        "stubbed": ["nothing; the run snapshots and restores the registry, "
                    "sys.path, sys.modules and sys.dont_write_bytecode"],
    }
    assumptions = [
        "rejection classes: missing attribute (incl. model_func and the "
        "ancillary trio) -> ModelIncompleteError; mismatched list lengths, "
        "non-unique names, defaults out of order or fewer defaults than keys "
        "-> ModelImplementationError; both are 'a model error'",
        "an un-importable file (missing, syntax error, failing import, own "
        "code raising NameError/ZeroDivisionError/ValueError/...) must "
        "raise ModelImportError",
        "identity of a registered model is read from a marker constant in "
        "its source and from its output on seeded arrays",
    ]
    rule_text = (
        "seeded histories (4-14 ops) over register(valid module | "
        "NaniteFitModel | module with own wrappers | module with its own "
        "model wrapper only | every single-fault mutant incl. 'recipe "
        "missing'), deregister, load_model_from_file(valid | missing | "
        "syntax error | nine kinds of code raising at import | directory "
        "already on sys.path | same "
        "stem in another directory | edited and reloaded; register flag; "
        "dont_write_bytecode preset either way) and ancillary seeding with "
        "seeded values incl. NaN; all single-fault mutants are enumerated "
        "across the batch; M1-M5 after every op. distinct = op-list digest; "
        "non-trivial = at least one rejected and one accepted op")

    # ---------------------------------------------------------------- gen
    def generate(self, rng, tier, index):
        nops = rng.choice([4, 6, 8, 10] if tier == "quick"
                          else [6, 10, 14])
        keys = [f"simk{j}" for j in range(3)]
        muts_anc = all_mutants(True)
        ops = []
        # make sure every mutant is met across a batch: run index selects
        # one, the rest is random
        forced = muts_anc[index % len(muts_anc)]

        def gen_spec(mutant=None):
            spec = {"key": rng.choice(keys),
                    "scale": rng.choice([1.0, 1.0, 2.0, 0.5]),
                    "own_wrappers": rng.random() < 0.3}
            if rng.random() < 0.3:
                spec["argswap"] = True
            if rng.random() < 0.2:
                spec["own_model"] = rng.choice([2.5e-12, -1e-12])
            if rng.random() < 0.3:
                spec["labels"] = "alt"
            if rng.random() < 0.5 or (
                    mutant and mutant.get("attr") in ANC_TRIO + [
                        "compute_ancillaries"]):
                spec["anc"] = {"E": rng.choice([1234.5, float("nan"), 50.0,
                                                "data", "data"]),
                               "anc_x": rng.choice([1e-6, float("nan")])}
                if rng.random() < 0.5:
                    # an ancillary that matches a parameter which is fixed
                    # by default
                    spec["anc"]["R"] = rng.choice([4e-6, float("nan")])
                if rng.random() < 0.3:
                    spec["anc"]["_extra"] = rng.choice(
                        [{"R": 7e-6, "helper": 1.0}, {"nu": 0.3},
                         {"baseline": 1e-10, "R": 2e-6}])
                if rng.random() < 0.4:
                    # ... and one for the contact point, which the library
                    # also guesses from the data
                    spec["anc"]["contact_point"] = rng.choice(
                        [1.23e-7, float("nan")])
            if mutant:
                spec["mutant"] = mutant
            return spec

        forced_done = False
        while len(ops) < nops:
            r = rng.random()
            if not forced_done and (r < 0.25 or len(ops) == nops - 1):
                spec = gen_spec(forced)
                forced_done = True
                if rng.random() < 0.6:
                    ops.append({"op": "register", "spec": spec,
                                "as": rng.choice(["module", "module",
                                                  "fitmodel"])})
                else:
                    ops.append({"op": "load", "spec": spec,
                                "file": "valid",
                                "stem": rng.choice(["modela", "modelb"]),
                                "dir": rng.choice(["d1", "d2"]),
                                "register": rng.random() < 0.7,
                                "dwb": rng.random() < 0.5})
            elif r < 0.45:
                mutant = rng.choice(muts_anc) if rng.random() < 0.3 else None
                ops.append({"op": "register", "spec": gen_spec(mutant),
                            "as": rng.choice(["module", "fitmodel"])})
            elif r < 0.5:
                ops.append({"op": "reregister", "key": rng.choice(keys),
                            "edit": rng.choice(["dup_name", "del_units",
                                                "shorten_keys", "rename",
                                                "rename"])})
            elif r < 0.6:
                ops.append({"op": "deregister", "key": rng.choice(keys),
                            "how": rng.choice(["registered", "old_handle",
                                               "fresh_wrapper"]),
                            "which": rng.randrange(4)})
            elif r < 0.9:
                kind = rng.choice(["valid", "valid", "valid", "missing",
                                   "syntax", "raises", "importerror",
                                   "nosuffix", "raises_pathedit",
                                   "importerror_pathedit"])
                mutant = rng.choice(muts_anc) if (
                    kind == "valid" and rng.random() < 0.25) else None
                ops.append({"op": "load", "spec": gen_spec(mutant),
                            "file": kind,
                            "stem": rng.choice(["modela", "modelb",
                                                "modela"]),
                            "dir": rng.choice(["d1", "d2", "d1"]),
                            "register": rng.random() < 0.6,
                            "dwb": rng.random() < 0.5,
                            "stmt": rng.randrange(len(FAILING_STATEMENTS)),
                            "dir_on_path": rng.random() < 0.25})
            else:
                ops.append({"op": "seed_params", "key": rng.choice(keys)})
        return {"config": {"curve": {"kind": "synthetic", "model":
                                     "hertz_para", "n": 200, "noise": 0.001,
                                     "seed": rng.randrange(1000)}},
                "ops": ops}

    # ------------------------------------------------------------ execute
    track_history = True

    def execute(self, run):
        if run.get("history") and not run.get("_child"):
            # replay of a finding that depends on what this worker had
            # executed before (process-wide caches)
            for h in run["history"]:
                self.execute(dict(h, _child=True, history=None))
        seams.install_lmfit_determinism()
        import nanite.model as nmodel
        import nanite.model.logic as logic
        reg = logic.models_available
        snap_reg = dict(reg)
        snap_path = list(sys.path)
        snap_mods = set(sys.modules)
        snap_dwb = sys.dont_write_bytecode
        try:
            with core.Scratch("c18") as scratch:
                return self._execute(run, scratch, reg, snap_reg)
        finally:
            reg.clear()
            reg.update(snap_reg)
            sys.path[:] = snap_path
            for m in set(sys.modules) - snap_mods:
                sys.modules.pop(m, None)
            sys.dont_write_bytecode = snap_dwb
            import importlib
            importlib.invalidate_caches()

    def _execute(self, run, scratch, reg, baseline):
        from nanite.model import logic
        from nanite.model.core import (ModelError, ModelImportError,
                                       NaniteFitModel)
        ref = {}        # key -> spec of the registered model
        log = []
        probes = collections.Counter()
        states = set()
        violation = None
        executed = 0
        oracle_checks = 0
        n_rej = n_acc = 0
        self.files = {}   # path -> spec currently in that file
        self.handles = {}  # key -> model objects handed out so far
        self.modules = {}  # key -> module object registered under it

        def viol(rule, site, feats, msg, i):
            return make_violation(self.prop, rule, site, feats, msg, i)

        for i, op in enumerate(run["ops"]):
            kind = op["op"]
            before_keys = set(reg)
            feats = {"op": kind}
            out = {"ok": True}
            exc = None
            path_before = list(sys.path)
            expect_reg = None
            spec = op.get("spec")
            mut = (spec or {}).get("mutant")
            if mut:
                feats["mutant"] = mut["kind"] + ":" + str(mut.get("attr", ""))
            dwb_before = None
            ret = None
            with warnings.catch_warnings():
                warnings.simplefilter("ignore")
                try:
                    if kind == "register":
                        mod = make_module(spec)
                        self._last_mod = mod
                        feats["as"] = op.get("as")
                        if op.get("as") == "fitmodel":
                            obj = NaniteFitModel(mod)
                        else:
                            obj = mod
                        ret = logic.register_model(obj)
                    elif kind == "reregister":
                        mod = self.modules.get(op["key"])
                        if mod is None or op["key"] not in ref:
                            continue
                        feats["edit"] = op["edit"]
                        if op["edit"] == "dup_name":
                            mod.parameter_names[1] = mod.parameter_names[0]
                        elif op["edit"] == "del_units":
                            del mod.parameter_units
                        elif op["edit"] == "shorten_keys":
                            mod.parameter_keys.pop()
                        elif op["edit"] == "rename":
                            mod.model_name = "renamed " + mod.model_name
                        ret = logic.register_model(mod)
                    elif kind == "deregister":
                        if op["key"] in reg:
                            how = op.get("how", "registered")
                            hs = self.handles.get(op["key"], [])
                            if how == "old_handle" and hs:
                                obj = hs[op.get("which", 0) % len(hs)]
                            elif how == "fresh_wrapper" and op["key"] in ref:
                                obj = NaniteFitModel(make_module(
                                    ref[op["key"]]))
                            else:
                                obj = reg[op["key"]]
                            feats["how"] = how
                            logic.deregister_model(obj)
                        else:
                            fake = types.SimpleNamespace(model_key=op["key"])
                            logic.deregister_model(fake)
                    elif kind == "load":
                        path = self.prepare_file(scratch, op, spec)
                        feats["file"] = op["file"]
                        feats["register"] = bool(op.get("register"))
                        if op.get("dir_on_path"):
                            # the user already has this directory on the
                            # path (e.g. a plugin folder)
                            sys.path.insert(1, str(path.parent))
                            feats["dir_on_path"] = True
                        sys.dont_write_bytecode = bool(op.get("dwb"))
                        dwb_before = sys.dont_write_bytecode
                        path_before = list(sys.path)
                        ret = logic.load_model_from_file(
                            path, register=bool(op.get("register")))
                    elif kind == "seed_params":
                        pass
                except _caught() as e:
                    exc = e
                    out = {"ok": False, "exc": type(e).__name__}
            executed += 1
            oracle_checks += 1
            # ---------------- expectations ------------------------------
            if kind == "register":
                exp = expected_error(mut)
                v = self.judge(exp, exc, feats, i)
                if v:
                    violation = v
                    break
                if exc is None:
                    ref[spec["key"]] = spec
                    self.handles.setdefault(spec["key"], []).append(ret)
                    self.modules[spec["key"]] = self._last_mod
                    n_acc += 1
                else:
                    n_rej += 1
                    probes["registration rejected"] += 1
            elif kind == "reregister":
                if op["edit"] == "rename":
                    if exc is not None:
                        violation = viol(
                            "M2", f"valid-rejected:{type(exc).__name__}",
                            feats, "re-registering a validly edited module "
                            f"raised {type(exc).__name__}: {exc}", i)
                        break
                    if reg[op["key"]].model_name != \
                            self.modules[op["key"]].model_name:
                        violation = viol(
                            "M1", "stale-after-reregistration", feats,
                            "the registry still shows the model as it was "
                            "before the module was edited and registered "
                            "again", i)
                        break
                    n_acc += 1
                else:
                    from nanite.model.core import ModelError as _ME
                    if exc is None:
                        violation = viol(
                            "M2", "mutant-accepted", feats,
                            f"a module edited into an inconsistent state "
                            f"({op['edit']}) was accepted when registered "
                            f"again", i)
                        break
                    if not isinstance(exc, _ME):
                        feats["exc"] = type(exc).__name__
                        violation = viol(
                            "M2", f"wrong-class:{type(exc).__name__}", feats,
                            f"rejected with {type(exc).__name__}", i)
                        break
                    n_rej += 1
                    # the module object is broken now; the key stays
                    # registered (registry unchanged) but cannot be used as
                    # a reference for identity checks any more
                    logic.models_available.pop(op["key"], None)
                    ref.pop(op["key"], None)
                    self.modules.pop(op["key"], None)
            elif kind == "deregister":
                if op["key"] in ref and exc is not None and \
                        feats.get("how", "registered") != "registered":
                    # a handle that is not the registered instance may be
                    # refused; what must not happen is a silent no-op
                    n_rej += 1
                elif op["key"] in ref:
                    if exc is not None:
                        violation = viol("M1", "deregister-raises", feats,
                                         f"deregistering a registered model "
                                         f"raised {out['exc']}", i)
                        break
                    del ref[op["key"]]
                    self.modules.pop(op["key"], None)
                    n_acc += 1
                else:
                    n_rej += 1
                    if exc is None and op["key"] not in before_keys:
                        pass
            elif kind == "load":
                # M3 import path and bytecode flag restored
                if list(sys.path) != path_before:
                    feats["path_len_delta"] = len(sys.path) - len(path_before)
                    violation = viol(
                        "M3", "sys.path", feats,
                        f"sys.path changed by load_model_from_file "
                        f"({op['file']} file): before {path_before[:3]}... "
                        f"after {list(sys.path)[:3]}...", i)
                    break
                if sys.dont_write_bytecode != dwb_before:
                    feats["dwb_before"] = dwb_before
                    violation = viol(
                        "M3", "dont_write_bytecode", feats,
                        f"sys.dont_write_bytecode was {dwb_before} before "
                        f"and is {sys.dont_write_bytecode} after "
                        f"load_model_from_file", i)
                    break
                probes["import state compared after load"] += 1
                if op["file"] != "valid":
                    # un-importable file
                    n_rej += 1
                    probes[f"un-importable file: {op['file']}"] += 1
                    # "a file that cannot be imported raises the documented
                    # import error", whatever made the import fail
                    ok_classes = [ModelImportError]
                    if exc is None:
                        violation = viol(
                            "M2", "unimportable-accepted", feats,
                            f"loading a {op['file']} file returned "
                            f"{ret!r}", i)
                        break
                    if not isinstance(exc, tuple(ok_classes)):
                        feats["exc"] = type(exc).__name__
                        violation = viol(
                            "M2", f"unimportable:{type(exc).__name__}",
                            feats,
                            f"loading a {op['file']} file raised "
                            f"{type(exc).__name__}: {exc}; documented is "
                            f"ModelImportError", i)
                        break
                else:
                    exp = expected_error(mut)
                    v = self.judge(exp, exc, feats, i)
                    if v:
                        violation = v
                        break
                    if exc is None:
                        n_acc += 1
                        # M4 the returned model is the code in that file
                        v = self.check_identity(ret, spec, feats, i,
                                                "returned")
                        if v:
                            violation = v
                            break
                        self.handles.setdefault(spec["key"], []).append(ret)
                        if op.get("register"):
                            ref[spec["key"]] = spec
                            self.modules[spec["key"]] = ret.module
                    else:
                        n_rej += 1
            elif kind == "seed_params":
                if op["key"] in ref:
                    v = self.check_seeding(op["key"], ref[op["key"]],
                                           run["config"]["curve"], feats, i)
                    probes["ancillary seeding checked"] += 1
                    if v:
                        violation = v
                        break
            if exc is None and mut and \
                    mut.get("attr") == "compute_ancillaries" and \
                    ref.get(spec["key"]) is spec and reg.get(spec["key"]):
                # accepted although the recipe is missing: it has to be
                # usable (initial parameters are the defaults)
                v = self.check_seeding(spec["key"], spec,
                                       run["config"]["curve"], feats, i)
                probes["accepted model without recipe used"] += 1
                if v:
                    violation = v
                    break
            # ---------------- M1 registry == reference --------------------
            want = set(baseline) | set(ref)
            have = set(reg)
            if want != have:
                feats["extra"] = sorted(have - want)
                feats["missing"] = sorted(want - have)
                violation = viol(
                    "M1", "registry-keys", feats,
                    f"registry keys differ from the reference: extra "
                    f"{sorted(have - want)}, missing {sorted(want - have)}",
                    i)
                break
            for k, sp in ref.items():
                v = self.check_identity(reg[k], sp, feats, i, "registered")
                if v:
                    violation = v
                    break
            if violation:
                break
            # the package-level helpers read the same registry
            import nanite.model as nm
            for k, sp in ref.items():
                try:
                    okl = (list(nm.get_init_parms(k)) == KEYS
                           and nm.get_parm_name(k, "R") ==
                           labels_for(sp)[0][1]
                           and nm.get_parm_unit(k, "R") ==
                           labels_for(sp)[1][1]
                           and nm.get_parm_name(k, "baseline") ==
                           labels_for(sp)[0][4]
                           and nm.get_parm_unit(k, "E") == "Pa"
                           and nm.get_model_by_name(
                               "harness model " + k) is reg[k]
                           and nm.get_anc_parm_keys(k)
                           == reg[k].get_anc_parm_keys())
                except _caught() as e:
                    okl = False
                    feats["exc"] = type(e).__name__
                if not okl and reg[k].model_name == "harness model " + k:
                    violation = viol(
                        "M1", "package-helpers", feats,
                        f"nanite.model helper functions disagree with the "
                        f"registered model {k}", i)
                    break
            if violation:
                break
            # ... and know nothing about keys that are not registered
            for k in ("simk0", "simk1", "simk2"):
                if k in ref or k in reg:
                    continue
                for fn in (nm.get_parm_name, nm.get_parm_unit):
                    try:
                        got = fn(k, "R")
                    except _caught():
                        continue
                    violation = viol(
                        "M1", "package-helpers", dict(feats, gone=True),
                        f"nanite.model.{fn.__name__}({k!r}, 'R') answers "
                        f"{got!r} although no model is registered under "
                        f"that key", i)
                    break
                if violation:
                    break
            if violation:
                break
            for k, md in baseline.items():
                if reg.get(k) is not md:
                    violation = viol("M1", "shipped-model-replaced", feats,
                                     f"shipped model {k} was replaced", i)
                    break
            if violation:
                break
            states.add(core.digest([sorted((k, spec_id(s))
                                           for k, s in ref.items())]))
            log.append({"i": i, "op": kind, "out": out,
                        "keys": sorted(ref)})
        # behaves like shipped code: fit with a scale-1 model
        if violation is None:
            for k, sp in ref.items():
                if sp.get("scale", 1.0) == 1.0 and not eff_anc(sp) and \
                        not sp.get("own_model"):
                    violation = self.check_fit_twin(k, run["config"]["curve"])
                    probes["fit compared with shipped twin"] += 1
                    oracle_checks += 1
                    break
        return {"violation": violation, "log_digest": core.digest(log),
                "log": log, "probes": dict(probes), "faults": {},
                "states": sorted(states),
                "nontrivial": n_rej > 0 and n_acc > 0,
                "oracle_checks": oracle_checks, "ops_executed": executed}

    # ------------------------------------------------------------ helpers
    def judge(self, exp, exc, feats, i):
        """M2: accepted / rejected with the documented class."""
        from nanite.model.core import ModelError
        if exp is None:
            if exc is not None:
                feats["exc"] = type(exc).__name__
                return make_violation(
                    self.prop, "M2", f"valid-rejected:{type(exc).__name__}",
                    feats, f"a valid model was rejected with "
                    f"{type(exc).__name__}: {exc}", i)
            return None
        if exp == "either":
            if exc is not None and not isinstance(exc, ModelError):
                feats["exc"] = type(exc).__name__
                return make_violation(
                    self.prop, "M2", f"wrong-class:{type(exc).__name__}",
                    feats, f"rejected with {type(exc).__name__}: {exc}, "
                    f"not a model error", i)
            return None
        if exc is None:
            return make_violation(
                self.prop, "M2", "mutant-accepted", feats,
                f"an inconsistent model module ({feats.get('mutant')}) was "
                f"accepted", i)
        if not isinstance(exc, ModelError):
            feats["exc"] = type(exc).__name__
            return make_violation(
                self.prop, "M2", f"wrong-class:{type(exc).__name__}", feats,
                f"inconsistent model ({feats.get('mutant')}) rejected with "
                f"{type(exc).__name__}: {exc}, which is not a model error",
                i)
        return None

    def prepare_file(self, scratch, op, spec):
        d = scratch / op.get("dir", "d1")
        d.mkdir(exist_ok=True)
        path = d / (op.get("stem", "modela") + ".py")
        kind = op["file"]
        if kind == "missing":
            path = d / "does_not_exist.py"
            if path.exists():
                path.unlink()
            return path
        if kind == "syntax":
            path = d / (op.get("stem", "modela") + "_syn.py")
            path.write_text("def broken(:\n    pass\n")
        elif kind == "raises":
            path = d / (op.get("stem", "modela") + "_exc.py")
            path.write_text(FAILING_STATEMENTS[
                op.get("stmt", 0) % len(FAILING_STATEMENTS)] + "\n")
        elif kind == "importerror":
            path = d / (op.get("stem", "modela") + "_imp.py")
            path.write_text("import a_module_that_does_not_exist_sim\n")
        elif kind == "nosuffix":
            # valid code in a file the import machinery has no loader for
            path = d / (op.get("stem", "modela") + rng_suffix(op))
            path.write_text(render(spec))
        elif kind in ("raises_pathedit", "importerror_pathedit"):
            # a model file that puts its helper directory on the import
            # path itself and then fails
            path = d / (op.get("stem", "modela") + "_pe.py")
            helper = d / "helpers"
            how = "insert(0, " if op.get("dwb") else "append("
            fail = "x = 1 / 0" if kind == "raises_pathedit" else \
                "import a_module_that_does_not_exist_sim"
            path.write_text(f"import sys\nsys.path.{how}{str(helper)!r})\n"
                            f"{fail}\n")
        else:
            path.write_text(render(spec))
            # make sure an edited file is not served from a stale bytecode
            # cache keyed by (mtime, size)
            import importlib
            importlib.invalidate_caches()
        return path

    def check_identity(self, md, spec, feats, i, where):
        """M4 / M1: `md` is the model the spec describes."""
        try:
            # a consistent model answers every documented lookup
            return self._check_identity(md, spec, feats, i, where)
        except _caught() as e:
            return make_violation(
                self.prop, "M4" if where == "returned" else "M1",
                f"lookup-raises:{type(e).__name__}", dict(feats, where=where),
                f"a documented lookup on the {where} model {spec['key']} "
                f"raised {type(e).__name__}: {e}", i)

    def _check_identity(self, md, spec, feats, i, where):
        sid = spec_id(spec)
        got = getattr(getattr(md, "module", None), "SIM_ID", None)
        if got != sid:
            f = dict(feats, where=where)
            return make_violation(
                self.prop, "M4" if where == "returned" else "M1",
                f"identity:{where}", f,
                f"the {where} model for key {spec['key']} is not the code "
                f"that was loaded/registered (marker {got} != {sid})", i)
        if md.model_key != spec["key"]:
            return make_violation(self.prop, "M4", "model_key", feats,
                                  "model_key differs", i)
        NAMES_, UNITS_ = labels_for(spec)
        if spec.get("mutant"):
            NAMES_, UNITS_ = list(md.parameter_names), \
                list(md.parameter_units)
        if list(md.parameter_keys) != KEYS or \
                list(md.parameter_names) != NAMES_ or \
                list(md.parameter_units) != UNITS_:
            return make_violation(self.prop, "M4", "parameter-lists", feats,
                                  "parameter keys/names/units differ from "
                                  "the module's", i)
        # documented names and units, also when an ancillary has the same
        # key as a fit parameter
        for k, nm, un in zip(KEYS, NAMES_, UNITS_):
            if md.get_parm_name(k) != nm or md.get_parm_unit(k) != un:
                return make_violation(
                    self.prop, "M4", "parameter-label", dict(feats, key=k),
                    f"label/unit of fit parameter {k!r} is "
                    f"{md.get_parm_name(k)!r}/{md.get_parm_unit(k)!r}, the "
                    f"module says {nm!r}/{un!r}", i)
        if eff_anc(spec):
            if md.get_parm_name("anc_x") != "anc x" or \
                    md.get_parm_unit("anc_x") != "m":
                return make_violation(
                    self.prop, "M4", "ancillary-label", feats,
                    "label/unit of the model's own ancillary differ from "
                    "the module's", i)
        if md.get_parm_name("max_indent") != "Maximum indentation":
            return make_violation(self.prop, "M4", "common-ancillary-label",
                                  feats, "label of the common ancillary "
                                  "max_indent differs", i)
        anc_keys = md.get_anc_parm_keys()
        want = ["max_indent"] + ((["E", "anc_x"] + (
            ["R"] if "R" in spec["anc"] else []) + (
            ["contact_point"] if "contact_point" in spec["anc"] else []))
            if spec.get("anc") else [])
        if eff_anc(spec) is None and spec.get("anc"):
            # recipe missing: what is advertised is not prescribed; that
            # the model can be used is checked where it is accepted
            want = list(anc_keys)
        if list(anc_keys) != want:
            return make_violation(
                self.prop, "M4", "ancillary-keys", feats,
                f"ancillary keys {anc_keys} != common + own {want}", i)
        # model and residual wrappers evaluate the module's function
        params = md.get_parameter_defaults()
        pv = {k: params[k].value for k in KEYS}
        for desc in (True, False):
            delta = np.linspace(1e-6, -1e-6, 31)
            if not desc:
                delta = delta[::-1].copy()
            exp = expected_model(spec.get("scale", 1.0), pv,
                                 delta if desc else delta[::-1])
            if not desc:
                exp = exp[::-1]
            got = md.model(params, delta)
            own = spec.get("own_model") if not spec.get("own_wrappers") \
                and (spec.get("mutant") or {}).get("attr") != "model_func" \
                else None
            if digest_array(np.asarray(got)) != digest_array(
                    exp + own if own else exp):
                return make_violation(
                    self.prop, "M4", "model-output", dict(feats, desc=desc),
                    "model wrapper output differs from the module's "
                    "function", i)
            force = exp + 1e-10
            res = md.residual(params, delta, force, 0)
            if not np.array_equal(np.asarray(res), force - exp):
                return make_violation(
                    self.prop, "M4", "residual-output", feats,
                    "default residual != data - model", i)
        return None

    def check_seeding(self, key, spec, cfg, feats, i):
        idnt = curves.make_curve(cfg)
        p0 = None
        with warnings.catch_warnings():
            warnings.simplefilter("ignore")
            if eff_anc(spec):
                # first on the raw curve (no tip position yet: the contact
                # point cannot be guessed, the model's own ancillaries
                # apply all the same)
                try:
                    p0 = idnt.get_initial_fit_parameters(model_key=key)
                except _caught() as e:
                    return make_violation(
                        self.prop, "M5", f"raises:{type(e).__name__}", feats,
                        f"get_initial_fit_parameters on the raw curve "
                        f"raised {type(e).__name__}: {e}", i)
            idnt.apply_preprocessing(["compute_tip_position",
                                      "correct_force_offset",
                                      "correct_tip_offset"])
            try:
                p = idnt.get_initial_fit_parameters(model_key=key)
            except _caught() as e:
                return make_violation(
                    self.prop, "M5", f"raises:{type(e).__name__}", feats,
                    f"get_initial_fit_parameters raised "
                    f"{type(e).__name__}: {e}", i)
        # the same through the other public routes: the guess function and
        # a fitter given the model key, on a curve that was never told
        # about this model
        import nanite.fit as nfit
        idnt_b = curves.make_curve(cfg)
        with warnings.catch_warnings():
            warnings.simplefilter("ignore")
            idnt_b.apply_preprocessing(["compute_tip_position",
                                        "correct_force_offset",
                                        "correct_tip_offset"])
            try:
                pg = nfit.guess_initial_parameters(idnt=idnt_b,
                                                   model_key=key)
                pf_ = nfit.IndentationFitter(
                    idnt_b, model_key=key).fp["params_initial"]
            except _caught() as e:
                return make_violation(
                    self.prop, "M5", f"raises:{type(e).__name__}", feats,
                    f"guess_initial_parameters / IndentationFitter with "
                    f"model_key raised {type(e).__name__}: {e}", i)
        for route, q in (("guess_initial_parameters", pg),
                         ("IndentationFitter", pf_)):
            for k in KEYS:
                if q[k].value != p[k].value:
                    return make_violation(
                        self.prop, "M5", f"seed-{k}:route",
                        dict(feats, route=route),
                        f"{route}(model_key={key!r}) starts {k} at "
                        f"{q[k].value}, get_initial_fit_parameters at "
                        f"{p[k].value}", i)
        anc = eff_anc(spec)
        if anc and p0 is not None:
            for k_, dflt in (("E", 3e3), ("R", 10e-6)):
                a_ = anc.get(k_)
                w_ = a_ if (a_ is not None and a_ != "data"
                            and a_ == a_) else dflt
                if p0[k_].value != w_:
                    return make_violation(
                        self.prop, "M5", f"seed-{k_}",
                        dict(feats, anc="raw-curve"),
                        f"initial {k_} on the raw curve (no tip position) "
                        f"is {p0[k_].value}, the model's ancillaries give "
                        f"{w_}", i)
        want_E = 3e3
        if anc and anc["E"] == "data":
            # before the pipeline ran there was no tip position (nothing to
            # seed with); now there is; and it follows a change of the
            # pipeline
            want_E = float(np.max(idnt["tip position"])) * 1e9 + 100.0
            if p0 is not None and p0["E"].value != 3e3:
                return make_violation(
                    self.prop, "M5", "seed-E", dict(feats, anc="data:raw"),
                    f"initial E on the raw curve is {p0['E'].value}, "
                    f"expected the default 3000.0 (the ancillary is NaN "
                    f"without a tip position)", i)
            with warnings.catch_warnings():
                warnings.simplefilter("ignore")
                idnt.apply_preprocessing(
                    ["compute_tip_position", "correct_force_offset",
                     "correct_tip_offset"],
                    {"correct_tip_offset": {"method": "fit_constant_line"}})
                p2 = idnt.get_initial_fit_parameters(model_key=key)
            want2 = float(np.max(idnt["tip position"])) * 1e9 + 100.0
            if p2["E"].value != want2:
                return make_violation(
                    self.prop, "M5", "seed-E", dict(feats, anc="data:again"),
                    f"initial E after a change of the pipeline is "
                    f"{p2['E'].value}, the model's ancillary now gives "
                    f"{want2}", i)
        elif anc and anc["E"] == anc["E"]:
            want_E = anc["E"]
        if p["E"].value != want_E:
            return make_violation(
                self.prop, "M5", "seed-E", dict(feats, anc=str(anc)),
                f"initial E is {p['E'].value}, expected {want_E} "
                f"(ancillaries {anc})", i)
        want_R = 10e-6
        if anc and "R" in anc and anc["R"] == anc["R"]:
            want_R = anc["R"]
        if anc and "contact_point" in anc and \
                anc["contact_point"] == anc["contact_point"]:
            if p["contact_point"].value != anc["contact_point"]:
                return make_violation(
                    self.prop, "M5", "seed-contact_point",
                    dict(feats, anc=str(anc)),
                    f"initial contact point is {p['contact_point'].value}, "
                    f"the model's ancillary says {anc['contact_point']}", i)
        for k, dv in (("R", want_R), ("nu", .5), ("baseline", 0)):
            if p[k].value != dv:
                return make_violation(
                    self.prop, "M5", f"seed-{k}", feats,
                    f"initial {k} is {p[k].value}, expected default {dv}", i)
        if "anc_x" in p:
            return make_violation(self.prop, "M5", "anc-leaked", feats,
                                  "non-matching ancillary became a fit "
                                  "parameter", i)
        return None

    def check_fit_twin(self, key, cfg):
        a = curves.make_curve(cfg)
        b = curves.make_curve(cfg)
        res = []
        with warnings.catch_warnings():
            warnings.simplefilter("ignore")
            for idnt, mk in ((a, key), (b, "hertz_para")):
                idnt.apply_preprocessing(["compute_tip_position",
                                          "correct_force_offset",
                                          "correct_tip_offset"])
                try:
                    idnt.fit_model(model_key=mk)
                except _caught() as e:
                    return make_violation(
                        self.prop, "M4", f"fit-raises:{type(e).__name__}",
                        {"model": mk}, f"fit with {mk} raised {e}")
                p = idnt.fit_properties["params_fitted"]
                res.append([(n, fhex(q.value)) for n, q in p.items()]
                           + [digest_array(np.asarray(idnt["fit"]))])
        if res[0] != res[1]:
            return make_violation(
                self.prop, "M4", "fit-twin", {},
                "a fit with the loaded/registered model differs from the "
                "fit with the identical shipped code (hertz_para)")
        return None

    def simplify_op(self, op):
        if op.get("spec", {}).get("anc") is not None:
            o = copy.deepcopy(op)
            o["spec"].pop("anc")
            yield o
        if op.get("spec", {}).get("own_wrappers"):
            o = copy.deepcopy(op)
            o["spec"]["own_wrappers"] = False
            yield o
        if op.get("spec", {}).get("own_model"):
            o = copy.deepcopy(op)
            o["spec"].pop("own_model")
            yield o
        if op.get("dir_on_path"):
            o = dict(op)
            o.pop("dir_on_path")
            yield o
