"""Engine registry: property id -> engine instance (lazy imports)."""
_cache = {}


def get(name):
    if name in _cache:
        return _cache[name]
    if name == "C03":
        from .engine_curve import CurveEngineC03
        e = CurveEngineC03()
    elif name == "C06":
        from .engine_curve import CurveEngineC06
        e = CurveEngineC06()
    elif name == "C09":
        from .engine_curve import CurveEngineC09
        e = CurveEngineC09()
    elif name == "C10":
        from .engine_curve import CurveEngineC10
        e = CurveEngineC10()
    elif name == "C12":
        from .engine_hash import HashWalkEngine
        e = HashWalkEngine()
    elif name == "C16":
        from .engine_container import ContainerEngine
        e = ContainerEngine()
    elif name == "C18":
        from .engine_registry import RegistryEngine
        e = RegistryEngine()
    elif name == "C19":
        from .engine_profile import ProfileEngine
        e = ProfileEngine()
    elif name == "C20":
        from .engine_map import MapEngine
        e = MapEngine()
    else:
        raise KeyError(name)
    _cache[name] = e
    return e
