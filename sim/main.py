"""Entry point: python -m sim.main <ID> --tier quick|thorough | --replay F"""
import argparse
import json
import os
import pathlib
import sys

# settings per property: (level, quick runs, thorough runs)
CHECKS = {
    "C20": dict(level="exploration", quick=(300, 90), thorough=(15000, 1500)),
    "C19": dict(level="exploration", quick=(400, 100), thorough=(6000, 1500)),
    "C18": dict(level="exploration", quick=(3000, 90), thorough=(40000, 1500)),
    "C16": dict(level="fault_enumeration", quick=(32, 90), thorough=(4000, 1500)),
    "C12": dict(level="exploration", quick=(800, 90), thorough=(40000, 1500)),
    "C10": dict(level="exploration", quick=(1500, 90), thorough=(30000, 1500)),
    "C09": dict(level="exploration", quick=(450, 90), thorough=(12000, 1500)),
    "C06": dict(level="exploration", quick=(400, 90), thorough=(30000, 1500)),
    "C03": dict(level="exploration", quick=(400, 90), thorough=(20000, 1500)),
}


def _assert_tree():
    """Make sure nanite is imported from the working tree under test."""
    import nanite
    src = os.environ.get("VERIF_NANITE_SRC", "/repo/src")
    got = str(pathlib.Path(nanite.__file__).resolve())
    if not got.startswith(str(pathlib.Path(src).resolve())):
        print(f"HARNESS-ERROR nanite imported from {got}, expected {src}")
        sys.exit(2)


def main():
    ap = argparse.ArgumentParser()
    ap.add_argument("prop", nargs="?")
    ap.add_argument("--tier", default=os.environ.get("VERIF_TIER", "quick"))
    ap.add_argument("--seed", type=int,
                    default=int(os.environ.get("VERIF_SEED", "20260926")))
    ap.add_argument("--runs", type=int, default=None)
    ap.add_argument("--budget", type=float, default=None)
    ap.add_argument("--workers", type=int,
                    default=int(os.environ.get("VERIF_WORKERS",
                                               str(min(16, os.cpu_count() or 1)))))
    ap.add_argument("--replay")
    ap.add_argument("--exec-run", help="internal: execute a run file and "
                    "print its returned values (cross-process clause)")
    ap.add_argument("--quiet", action="store_true")
    ap.add_argument("--survey", action="store_true",
                    help="development: count violation signatures, no minimisation")
    ap.add_argument("--digests", action="store_true",
                    help="print index:log digest per run (determinism self-test)")
    args = ap.parse_args()

    os.environ.setdefault("MPLBACKEND", "Agg")
    src = os.environ.get("VERIF_NANITE_SRC", "/repo/src")
    sys.path.insert(0, src)
    _assert_tree()
    from . import core, engines

    if args.exec_run:
        run = json.loads(pathlib.Path(args.exec_run).read_text())
        res = engines.get(run["property"]).execute(run)
        print("RETS " + core.jdump({"rets": res.get("rets"),
                                    "log_digest": res["log_digest"]}))
        return 0

    if args.replay:
        run = json.loads(pathlib.Path(args.replay).read_text())
        prop = run["property"]
        engine = engines.get(prop)
        res = engine.execute(run)
        v = res.get("violation")
        if v is None:
            print(f"REPLAY property={prop} no violation")
            return 0
        print("SIGNATURE " + "|".join(core.signature(v)))
        print(f"VIOLATION property={prop} replay={args.replay}")
        if not args.quiet:
            print(f"  rule={v['rule']} site={v['site']} features="
                  f"{core.jdump(v['features'])}\n  {v['message']}")
            for i, op in enumerate(run["ops"]):
                print(f"  op[{i}] {core.jdump(op)}")
        return 1

    prop = args.prop
    conf = CHECKS[prop]
    n_runs, budget = conf[args.tier]
    if args.runs is not None:
        n_runs = args.runs
    if args.budget is not None:
        budget = args.budget
    elif args.tier == "thorough" and os.environ.get("VERIF_BUDGET_S"):
        budget = float(os.environ["VERIF_BUDGET_S"])

    if args.digests:
        engine, results, skipped, wall = core.run_batch(
            prop, prop, args.tier, args.seed, n_runs, budget, args.workers)
        for r in results:
            print(r["index"], r.get("log_digest"),
                  r.get("harness_error", "")[:80].replace("\n", " "))
        return 0

    if args.survey:
        import collections
        engine, results, skipped, wall = core.run_batch(
            prop, prop, args.tier, args.seed, n_runs, budget, args.workers)
        c = collections.Counter()
        ex = {}
        for r in results:
            if r.get("harness_error"):
                c[("HARNESS",)] += 1
                ex.setdefault(("HARNESS",), (r["index"], r["harness_error"][-1500:]))
            v = r.get("violation")
            if v:
                k = core.signature(v) + (core.jdump(v["features"]),)
                c[k] += 1
                ex.setdefault(k, (r["index"], v["message"][:300]))
        for k, n in sorted(c.items(), key=lambda kv: -kv[1]):
            print(n, k, "e.g. run", ex[k][0], "::", ex[k][1])
        print(f"runs={len(results)} skipped={skipped} wall={wall:.1f}s "
              f"violating={sum(c.values())}")
        return 0

    engine = engines.get(prop)
    return core.check(prop, prop, args.tier, args.seed, n_runs, budget,
                      args.workers, conf["level"],
                      engine.assumptions, engine.rule_text,
                      engine.components)


if __name__ == "__main__":
    sys.exit(main())
