"""Seams owned by the harness (DESIGN.md sec. 1.1). All are installed from
outside by replacing module attributes that nanite looks up at call time; no
source hook in /repo is needed.

Every seam consults the process-wide FaultPlan `PLAN`: it counts the call and
raises the armed exception at the n-th call of the armed seam.
"""
import types

import numpy as np

from .core import FaultPlan

PLAN = FaultPlan()
MAX_NFEV_CAP = 400
_installed = {}


class _Proxy(types.ModuleType):
    """Pass-through proxy of a module with some attributes overridden."""

    def __init__(self, real, overrides):
        super().__init__(real.__name__ + "_proxy")
        object.__setattr__(self, "_real", real)
        object.__setattr__(self, "_over", overrides)

    def __getattr__(self, name):
        over = object.__getattribute__(self, "_over")
        if name in over:
            return over[name]
        return getattr(object.__getattribute__(self, "_real"), name)


def install_curve_seams():
    """Optimiser, preprocessing internals, rater construction, user model."""
    if _installed.get("curve"):
        return
    import lmfit
    import nanite.fit
    import nanite.indent
    import nanite.poc
    import nanite.preproc
    import nanite.smooth

    assert nanite.fit.lmfit is lmfit, "seam already replaced?"

    # -- optimiser -------------------------------------------------------
    real_minimize = lmfit.minimize

    def minimize(*a, **kw):
        PLAN.hit("minimize")
        # bounded runs: lmfit's own default budget is 2000*(nvars+1)
        # evaluations, which a non-converging fit on a 20k-point recorded
        # curve turns into seconds. The optimiser is real; only its default
        # evaluation budget is capped (identically for object and oracle).
        if kw.get("max_nfev") is None:
            kw["max_nfev"] = MAX_NFEV_CAP
        return real_minimize(*a, **kw)

    nanite.fit.lmfit = _Proxy(lmfit, {"minimize": minimize})

    # -- preprocessing internals -----------------------------------------
    real_compute_poc = nanite.poc.compute_poc

    def compute_poc(*a, **kw):
        PLAN.hit("poc")
        return real_compute_poc(*a, **kw)

    compute_poc.__wrapped__ = real_compute_poc
    nanite.poc.compute_poc = compute_poc

    real_dfb = nanite.poc.poc_deviation_from_baseline

    def poc_deviation_from_baseline(*a, **kw):
        PLAN.hit("poc_dfb")
        return real_dfb(*a, **kw)

    for attr in ("identifier", "name", "preprocessing"):
        setattr(poc_deviation_from_baseline, attr, getattr(real_dfb, attr))
    nanite.poc.poc_deviation_from_baseline = poc_deviation_from_baseline

    real_smooth = nanite.preproc.smooth_axis_monotone

    def smooth_axis_monotone(*a, **kw):
        PLAN.hit("smooth")
        return real_smooth(*a, **kw)

    nanite.preproc.smooth_axis_monotone = smooth_axis_monotone

    real_ftp = nanite.preproc.find_turning_point

    def find_turning_point(*a, **kw):
        PLAN.hit("turning")
        return real_ftp(*a, **kw)

    nanite.preproc.find_turning_point = find_turning_point

    class _Models:
        def __getattr__(self, name):
            return getattr(lmfit.models, name)

        @staticmethod
        def LinearModel(*a, **kw):
            PLAN.hit("slopefit")
            return lmfit.models.LinearModel(*a, **kw)

    nanite.preproc.lmfit = _Proxy(lmfit, {"models": _Models()})

    # -- rater construction ------------------------------------------------
    real_get_rater = nanite.indent.get_rater

    def get_rater(*a, **kw):
        PLAN.hit("get_rater")
        return real_get_rater(*a, **kw)

    get_rater.__wrapped__ = real_get_rater
    nanite.indent.get_rater = get_rater

    # -- API phase bracket: which exceptions leave apply_preprocessing -----
    real_ap = nanite.indent.Indentation.apply_preprocessing

    def apply_preprocessing(self, *a, **kw):
        prev = PLAN.phase
        PLAN.phase = "apply"
        PLAN.apply_calls += 1
        try:
            r = real_ap(self, *a, **kw)
            PLAN.apply_returned += 1
            return r
        finally:
            PLAN.phase = prev

    apply_preprocessing.__wrapped__ = real_ap
    nanite.indent.Indentation.apply_preprocessing = apply_preprocessing

    _installed["curve"] = True


# --------------------------------------------------------------------------
# harness model: Hertz with an expression-constrained parameter whose
# model function consults the fault plan ("model" seam)
# --------------------------------------------------------------------------
class SimExprModel:
    model_doc = "Harness model: Hertz paraboloid with constraint E1=v+E"
    model_key = "sim_expr"
    model_name = "harness hertz with constraint"
    parameter_keys = ["E", "R", "nu", "virtual_parameter", "E1",
                      "contact_point", "baseline"]
    parameter_names = ["Young's Modulus", "Tip Radius", "Poisson's Ratio",
                       "Virtual Parameter", "Another Modulus",
                       "Contact Point", "Force Baseline"]
    parameter_units = ["Pa", "m", "", "Pa", "Pa", "m", "N"]
    valid_axes_x = ["tip position"]
    valid_axes_y = ["force"]

    @staticmethod
    def get_parameter_defaults():
        import lmfit
        params = lmfit.Parameters()
        params.add("E", value=1e3, min=0, vary=False)
        params.add("R", value=10e-6, vary=False)
        params.add("nu", value=.5, vary=False)
        params.add("virtual_parameter", value=10, min=0, vary=True)
        params.add("E1", expr="virtual_parameter+E")
        params.add("contact_point", value=0)
        params.add("baseline", value=0)
        return params

    @staticmethod
    def model_func(delta, E, R, nu, virtual_parameter, E1,
                   contact_point=0, baseline=0):
        PLAN.hit("model")
        aa1 = 4 / 3 * E1 / (1 - nu ** 2) * np.sqrt(R)
        root = contact_point - delta
        pos = root > 0
        bb = np.zeros_like(delta)
        bb[pos] = (root[pos]) ** (3 / 2)
        return aa1 * bb + baseline


class SimAuxModel:
    model_doc = ("Harness model: Hertz paraboloid, E = scale * E_ref with "
                 "two auxiliary parameters that are not listed in "
                 "parameter_keys")
    model_key = "sim_aux"
    model_name = "harness hertz with auxiliary parameters"
    parameter_keys = ["E", "R", "nu", "contact_point", "baseline"]
    parameter_names = ["Young's Modulus", "Tip Radius", "Poisson's Ratio",
                       "Contact Point", "Force Baseline"]
    parameter_units = ["Pa", "m", "", "m", "N"]
    valid_axes_x = ["tip position"]
    valid_axes_y = ["force"]

    @staticmethod
    def get_parameter_defaults():
        import lmfit
        params = lmfit.Parameters()
        params.add("E", value=2e3, min=0)
        params.add("R", value=10e-6, min=0, vary=False)
        params.add("nu", value=.5, min=0, max=0.5, vary=False)
        params.add("contact_point", value=0)
        params.add("baseline", value=0)
        params.add("E_ref", value=500, min=0, max=1e5, vary=False)
        params.add("scale", value=4, min=0, max=100, vary=True)
        params["E"].set(expr="scale*E_ref")
        return params

    @staticmethod
    def model_func(delta, E, R, nu, contact_point=0, baseline=0,
                   E_ref=500, scale=4):
        PLAN.hit("model")
        aa = 4 / 3 * E / (1 - nu ** 2) * np.sqrt(R)
        root = contact_point - delta
        pos = root > 0
        bb = np.zeros_like(delta)
        bb[pos] = (root[pos]) ** (3 / 2)
        return aa * bb + baseline


def install_sim_model():
    if _installed.get("model"):
        return
    import nanite.model
    if "sim_expr" not in nanite.model.models_available:
        nanite.model.register_model(SimExprModel)
    if "sim_aux" not in nanite.model.models_available:
        nanite.model.register_model(SimAuxModel)
    _installed["model"] = True


def install_lmfit_determinism():
    """Remove a use-after-free nondeterminism in the *dependency* lmfit.

    `Minimizer.__residual` stores the array handed in by MINPACK / scipy
    (`result.last_internal_values = fvars`), which is a view of the
    optimiser's work buffer. When a fit is aborted (max_nfev reached; lmfit's
    own default limit is 2000*(nvars+1)), lmfit takes the best-fit values from
    that array *after* the optimiser has unwound and freed the buffer, so the
    reported parameters are whatever the allocator left there (measured: the
    same fit from scratch flips between two results within one process).
    Copying the array on the way in makes the abort path a deterministic
    function of the evaluation history and changes nothing else.
    """
    if _installed.get("lmfit_det"):
        return
    import lmfit.minimizer as mm
    name = "_Minimizer__residual"
    orig = getattr(mm.Minimizer, name)

    def __residual(self, fvars, apply_bounds_transformation=True):
        return orig(self, np.array(fvars, dtype=float, copy=True),
                    apply_bounds_transformation)

    setattr(mm.Minimizer, name, __residual)
    _installed["lmfit_det"] = True


def install_rater_memo(memo):
    """Serve rater constructions requested through the nanite.indent seam
    from a per-configuration memo (construction is deterministic in the
    configuration and costs 0.2-0.7 s). The seam still counts every request,
    which is what the cache-hit accounting needs."""
    if _installed.get("rater_memo"):
        return
    import nanite.indent
    counting = nanite.indent.get_rater

    def get_rater(regressor, training_set="zef18", names=None, lda=None,
                  **kw):
        PLAN.hit("get_rater")
        if kw:
            r = counting.__wrapped__(regressor, training_set, names, lda,
                                     **kw)
        else:
            r = memo.get(regressor, training_set, names, lda)
        PLAN.hit("get_rater", "after")
        return r

    get_rater.__wrapped__ = counting.__wrapped__
    nanite.indent.get_rater = get_rater

    # the rating itself (features + prediction): counted only while a
    # rate_quality call of the harness is in progress
    import nanite.rate.rater as nrr
    real_rate = nrr.IndentationRater.rate

    def rate(self, *a, **k):
        if PLAN.phase == "rate":
            PLAN.hit("rater_rate")
        r = real_rate(self, *a, **k)
        if PLAN.phase == "rate":
            PLAN.hit("rater_rate", "after")
        return r

    nrr.IndentationRater.rate = rate
    _installed["rater_memo"] = True


# --------------------------------------------------------------------------
# HDF5 write seams (C16) and the clock of nanite.rate.io
# --------------------------------------------------------------------------
class SimClock:
    """Simulated clock for nanite.rate.io (the only clock nanite reads)."""

    def __init__(self):
        self.now = 1_700_000_000.0
        self.elapsed = 0.0

    def advance(self, dt):
        self.now += dt
        self.elapsed += abs(dt)

    def time(self):
        return self.now

    def ctime(self, secs=None):
        import time as _t
        return _t.asctime(_t.gmtime(self.now if secs is None else secs))


CLOCK = SimClock()


def install_h5_seams():
    """Class-level wrappers on every h5py call save_hdf5 writes through.
    They only count / inject while PLAN.phase == "save"."""
    if _installed.get("h5"):
        return
    import h5py
    import nanite.rate.io as rio

    def wrap(cls, name, seam):
        real = getattr(cls, name)

        def wrapper(self, *a, **kw):
            if PLAN.phase != "save":
                return real(self, *a, **kw)
            PLAN.hit("h5write")            # fault before the call
            r = real(self, *a, **kw)
            PLAN.hit("h5write", when="after")   # lost acknowledgement
            return r

        wrapper.__wrapped__ = real
        wrapper.__name__ = name
        setattr(cls, name, wrapper)

    wrap(h5py.Group, "create_dataset", "create_dataset")
    wrap(h5py.Group, "create_group", "create_group")
    wrap(h5py.Group, "require_group", "require_group")
    wrap(h5py.AttributeManager, "__setitem__", "attr")

    real_init = h5py.File.__init__

    def file_init(self, *a, **kw):
        if PLAN.phase == "save":
            PLAN.hit("h5write")
        return real_init(self, *a, **kw)

    h5py.File.__init__ = file_init

    rio.time = CLOCK
    _installed["h5"] = True


# --------------------------------------------------------------------------
# process-global tables of the library: pristine copies, guard and restore
# --------------------------------------------------------------------------
_PRISTINE = {}


def _globals():
    import nanite.fit
    import nanite.rate.regressors
    return {"nanite.fit.FP_DEFAULT": nanite.fit.FP_DEFAULT,
            "nanite.fit.FP_RESULTS": nanite.fit.FP_RESULTS,
            "nanite.rate.regressors.reg_dict":
                nanite.rate.regressors.reg_dict}


def _glob_digest(obj):
    from .core import digest
    return digest(repr(sorted(obj.items(), key=str)) if isinstance(obj, dict)
                  else repr(obj))


def snapshot_globals():
    """Remember the library's module-level default tables as they are right
    after import (once per process)."""
    import copy
    if _PRISTINE:
        return
    for name, obj in _globals().items():
        _PRISTINE[name] = (copy.deepcopy(obj), _glob_digest(obj))


def changed_global():
    """Name of a module-level table that no longer equals its pristine copy
    (an operation must not modify shared defaults), else None."""
    for name, obj in _globals().items():
        if _glob_digest(obj) != _PRISTINE[name][1]:
            return name
    return None


def restore_globals():
    """Fresh world per run."""
    import copy
    for name, obj in _globals().items():
        if _glob_digest(obj) != _PRISTINE[name][1]:
            pristine = copy.deepcopy(_PRISTINE[name][0])
            if isinstance(obj, dict):
                obj.clear()
                obj.update(pristine)
            else:
                obj[:] = pristine
