#!/usr/bin/env python3
"""Regenerate MANIFEST.json from the table below (run after adding a check)."""
import json
import pathlib

V = pathlib.Path(__file__).resolve().parent.parent
TECH = ("deterministic simulation with fault injection: seeded operation/"
        "fault histories against an executable reference, ddmin, "
        "fresh-interpreter replay")

NA = {
 "C01": "pure function of one call's inputs (curve, settings): no history, fault, clock, I/O or interleaving for a simulator to control; ground-truth recovery is input generation, not simulation (DESIGN.md sec. 0)",
 "C02": "pure function of (parameters, indentation array); nothing for a schedule or fault to act on",
 "C04": "per-call relation between the outputs of one fit; its only history clause ('no stale numbers') is decided by C03's oracle",
 "C05": "pure function of (curve, interval, settings) of a single call",
 "C07": "per-step input/output relations of a single call",
 "C08": "pure function of a force array",
 "C11": "relation between two independent fits of the same input; no history or fault in the statement (the in-place gcf_k rescaling it touches is decided under C03/C10)",
 "C13": "pure per-call contract of model functions",
 "C14": "finite pure enumeration (1957 ordered selections) - exhaustive enumeration is model checking of a pure function, not simulation",
 "C15": "pure function of a directory's contents; the statement has no fault, crash or history clause",
 "C17": "pure function of one fitted curve",
}
PENDING = {}

CHECKS = {
 "C03": dict(engine="curve-sim", cat="exploration", ref="DESIGN.md 4.1",
   text="seeded search over operation and fault sequences (3-25 ops per history, optimiser/model/preprocessing faults injected inside calls) on one curve object; after every op the object is compared bit for bit with a freshly built curve that applies only the stored settings; a repeated fit (fit_model() and the identical call again) must make zero optimiser calls and change nothing; module-level default tables must be untouched; a sample of runs is re-executed in a fresh interpreter (no earlier objects, other hash seed) and must give the same event log. A directed prefix rotates over every setting key and route per batch; a directed tail (one run in thirteen) asks for the same steps in two legal orders, each followed by a fit. Sampling, not enumeration: a clean batch is evidence with the stated reach.",
   note="oracle recomputes with nanite's own code (detects history/cache/alias dependence, not a formula wrong the same way from scratch); caller is well behaved (fresh copies); lmfit's default evaluation budget is capped at the optimiser seam and its abort-path use-after-free is neutralised there"),
 "C06": dict(engine="curve-sim", cat="exploration", ref="DESIGN.md 4.2",
   text="seeded histories of valid, invalid and transiently failing preprocessing requests through all four request routes, interleaved with fits and edits; every accepted request is compared bit for bit with a fresh curve given the same steps/options, rejected requests must not be remembered, raw data must never change, and for flagged requests a fault is placed at EVERY seam call of that request (fail, check, retry, check). Other curves are preprocessed in between and one run in eight is compared with a fresh-interpreter twin that skips them (state leaking between objects of one process). Three directed openings chosen by the run index (file with its own tip position; slope-correction defaults spelled out; recorded curves on which segment discovery gives up, processed by give-up and drift pipelines in turn). Exploration over histories; complete over fault positions of the flagged requests.",
   note="rejected = the exception left apply_preprocessing (phase bracket seam); reference is nanite's own preprocessing on a fresh curve; clones for fault enumeration are asserted observation-equal"),
 "C09": dict(engine="curve-sim", cat="exploration", ref="DESIGN.md 4.3",
   text="seeded histories mixing preprocessing, fits (successful, unsuccessful, aborted by injected faults), setting edits and rate_quality over all regressors, five training-set forms, feature subsets and LDA flags; totality, value == the statement's ordering (failed binary criterion 0, undefined feature -1, else prediction) applied to the features of a freshly rebuilt curve with an independently assembled reference rater, and == the standalone rater; 'none' -> -1; without a successful fit only -1 (or 0 below 600 approach points); range for the averaging tree regressors; one-directional cache rule via the get_rater seam with one-key variations of the request and held objects edited in place; the same feature selection in another order rates the same; shared regressor defaults untouched; repeat-call identity; re-execution of sampled runs in a fresh interpreter under another PYTHONHASHSEED.",
   note="standalone rater and the rater requested through the seam are memoised per configuration (deterministic construction); domain = configurations for which the standalone rater builds"),
 "C10": dict(engine="curve-sim", cat="exploration", ref="DESIGN.md 4.4",
   text="twin-world simulation: one seeded op list of hold / pass / edit-in-place / pass-again scenarios over every mutable argument kind (parameter sets, step lists, option and method dictionaries, ranges, feature-name lists, force and sample arrays; with gcf_k, multi-pass ranges and plateau search) is executed by an aliasing caller and by a by-value caller; outcomes and full curve observations must be identical after every library call (A1), every argument must be unchanged by the call (A2), the by-value world must equal a fresh curve with the stored settings (A3: the change was really noticed), and returned arrays must not share memory with array arguments (A4).",
   note="held objects = created-and-passed objects and return values of get_initial_fit_parameters(); reads of public attributes / fit_properties items are not 'returned objects'"),
 "C12": dict(engine="hash-walk", cat="exploration", ref="DESIGN.md 4.5",
   text="seeded one-thing-at-a-time walks (8-30 states) over curve data, pipeline, options, every fit-setting key, parameter attributes, 1-ulp single-sample perturbations, representation variants and don't-care edits on a live object; for every pair of states 'hash equal <=> the harness's own canonical form of the effective settings equal'; every state is also hashed on a fresh object that receives the stored settings in shuffled order and other representations; stored hash after fit_model == recomputed hash, and a stored hash that survives any step must still be current; module-level defaults untouched; sampled walks are re-executed in a fresh interpreter under another PYTHONHASHSEED. Which value pairs are visited is seeded sampling biased to encoder hazards - exploration, not enumeration.",
   note="canonical form is independent of nanite's byte encoding; invalid setting combinations (fitter sanity checks raise) are outside the hash's domain; direct column edits by the harness drop results like a setting edit"),
 "C16": dict(engine="container-sim", cat="fault_enumeration", ref="DESIGN.md 4.6",
   text="histories of saves into 1-2 rating containers (new curve, same curve again, similar and clearly different fits, several measurement files and enumerations) against a reference map of acknowledged entries, on real HDF5 files with a simulated clock; for every flagged save (one per history in the quick tier, every save in the thorough tier) a failure is injected at EVERY h5py write call of that save, before the call takes effect and after it, each on its own copy of the container: the container must stay readable and equal to the reference, then the save is retried and must be a proper acknowledged save. At the end of a run with two containers both are read as a folder through RateManager: the multiset of (rating features, user rating) pairs must be that of the stored curves. Complete over the fault positions of the flagged saves; exploration over histories.",
   note="failures are exceptions the save observes (OSError at a write call); process death inside an HDF5 write is not modelled; 'clearly different' = fit differs by more than 0.1 % of its amplitude"),
 "C18": dict(engine="registry-sim", cat="exploration", ref="DESIGN.md 4.7",
   text="seeded histories of register / deregister / load_model_from_file calls on the process-wide registry with real model files in a scratch directory: valid models in three forms, every single-fault mutant of a valid module (all of them are met in every batch), missing / syntactically broken / raising / import-failing files, directories already on sys.path, same file name in another directory, edited-and-reloaded files, either bytecode-flag preset; after every op registry == reference dict with model identity, documented error classes, sys.path (order included) and sys.dont_write_bytecode unchanged, loaded model == the code in that file (outputs on seeded arrays, fit bit-equal to the shipped twin), ancillary seeding incl. NaN.",
   note="the registry and the interpreter's import state are process-global: each run snapshots and restores them; error-class expectations are the harness's reading of the statement (see assumptions in the evidence)"),
 "C19": dict(engine="profile-sim", cat="exploration", ref="DESIGN.md 4.8",
   text="seeded histories over the profile file as durable state: set / get / restart (all Profile objects dropped, new one on the same file) / get_fit_params / legacy key=value file written from the reference / interactive setup driven by a scripted input() (each prompt answered or skipped, invalid-then-valid answers for the looping prompts) / batch fit on a scratch data folder; reference dict with the documented defaults; every read through a new Profile equals the reference, legacy == JSON values, fit parameters == defaults overridden by exactly the stored entries, stored values == answers (with units), batch fit accepts the profile and statistics.tsv / plots.tif have one row / page per curve with independently recomputed modulus and rating; one directed block per eleven runs repeats the batch fit after the user's training-set directory was regenerated in place.",
   note="PROFILE_PATH is bound at import: each process imports nanite.cli under a private XDG_CONFIG_HOME; answers stay inside each prompt's documented domain (numbers strictly inside parameter bounds); the external iterative model sneddon_spher is left out of the batch fits for cost"),
 "C20": dict(engine="map-sim", cat="exploration", ref="DESIGN.md 4.9",
   text="seeded scratch folders of measurement files (synthetic HDF5 maps with seeded shape, scan order and missing pixels; multi-curve files; recorded JPK curves, maps and csv; files without spring constant with and without innate tip position) loaded through load_group / IndentationGroup / QMap with progress callbacks and metadata overrides, then histories of fit / rate / edit / re-preprocess / refit on the map's curves with get_qmap of the three fit features in between; every load is compared with what afmformats' own loader yields (count, order, enums, class, override applied, refusal rule, callback monotone in [0, 1]); every map is compared pixel by pixel, bit for bit, with the curves' current fit/rating in the stated unit, NaN and warning counts included.",
   note="ground truth for file contents is afmformats' loader on the same file; metadata overrides a format reader does not support are the dependency's limit"),
}


def main():
    checks = []
    engines = {}
    for pid, c in sorted(CHECKS.items()):
        checks.append({
            "property_id": pid,
            "quick_cmd": f"./check {pid} --tier quick",
            "thorough_cmd": f"./check {pid} --tier thorough",
            "evidence_file": f"evidence/{pid}.json",
            "replay_cmd_template": "./check --replay {path}",
            "engine": c["engine"],
            "level_claimed": {"category": c["cat"], "text": c["text"],
                              "design_ref": c["ref"]},
            "level_note": c["note"],
            "technique": c.get("tech", TECH),
        })
        engines.setdefault(c["engine"], []).append(pid)
    paths = {"curve-sim": "sim/engine_curve.py", "hash-walk": "sim/engine_hash.py",
             "container-sim": "sim/engine_container.py",
             "registry-sim": "sim/engine_registry.py",
             "profile-sim": "sim/engine_profile.py",
             "map-sim": "sim/engine_map.py"}
    na = dict(NA)
    for pid, sec in PENDING.items():
        if pid not in CHECKS:
            na[pid] = (f"claimed by the design (DESIGN.md {sec}) but its check "
                       "is not implemented yet in this commit; listed here so "
                       "that nothing is claimed without machinery")
    m = {
        "version": 1,
        "setup_cmd": "./setup.sh",
        "hooks": {
            "guard": "NANITE_VERIF",
            "enable": "no source hooks: every seam is installed from outside by replacing module attributes at run time (sim/seams.py); checks import nanite from /repo/src (or VERIF_NANITE_SRC)",
            "baseline_off_cmd": "cd /repo && /venv/bin/python -m pytest -ra -q -p no:cacheprovider --timeout=900 --continue-on-collection-errors",
            "source_commits": [],
            "add_only": True},
        "engines": [{"name": n, "path": paths[n], "serves_properties": p,
                     "kind_free_text": "seeded operation-and-fault-sequence simulation against an executable reference model"}
                    for n, p in sorted(engines.items())],
        "checks": checks,
        "not_applicable": [{"property_id": k, "reason": v}
                           for k, v in sorted(na.items())],
        "notes": "Exit codes: 0 ok, 1 VIOLATION (printed only after the minimised replay reproduced in a fresh interpreter), 2 HARNESS-ERROR. VERIF_SEED selects the batch; ./check --replay <file> re-executes one run. Genuine defects repaired in /repo are listed as 'fixed' in known_findings.json.",
    }
    (V / "MANIFEST.json").write_text(json.dumps(m, indent=1) + "\n")


if __name__ == "__main__":
    main()
