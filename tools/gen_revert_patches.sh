#!/bin/sh
# Regenerate mutants/revert-<commit>-<prop>.patch: each genuine-defect fix,
# reverted on top of the current /repo HEAD (forward patch). Commits whose
# revert conflicts with later fixes are skipped and listed.
cd "$(dirname "$0")/.." || exit 2
W=$(mktemp -d /tmp/verif-rev.XXXXXX)
git -C /repo worktree add -q --detach $W/wt HEAD || exit 2
rm -f mutants/revert-fix-*.patch mutants/revert-*.patch
python3 - "$W/wt" <<'PY'
import json, subprocess, sys
wt = sys.argv[1]
kf = json.load(open("known_findings.json"))["findings"]
seen = {}
for f in kf:
    if f.get("status") == "fixed":
        seen.setdefault(f["commit"], []).append(f["property"])
for c, props in seen.items():
    r = subprocess.run(["git", "-C", wt, "revert", "-n", c], capture_output=True, text=True)
    if r.returncode != 0:
        print("SKIP (conflict)", c, props)
        subprocess.run(["git", "-C", wt, "revert", "--abort"], capture_output=True)
        subprocess.run(["git", "-C", wt, "reset", "-q", "--hard", "HEAD"])
        continue
    d = subprocess.run(["git", "-C", wt, "diff", "HEAD", "--", "src"], capture_output=True, text=True).stdout
    name = f"mutants/revert-{c}-{'-'.join(sorted(set(props)))}.patch"
    open(name, "w").write(d)
    print("OK", name)
    subprocess.run(["git", "-C", wt, "reset", "-q", "--hard", "HEAD"])
PY
git -C /repo worktree remove --force $W/wt; rm -rf $W
