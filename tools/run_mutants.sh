#!/bin/sh
# Every mutants/revert-<commit>-<props>.patch must be detected by the quick
# check of each property named in its file name; m-<prop>-*.patch likewise.
cd "$(dirname "$0")/.." || exit 2
FAIL=0
for M in mutants/*.patch; do
  B=$(basename $M .patch)
  case $B in
    revert-*) PROPS=$(echo $B | cut -d- -f3- | tr '-' ' ');;
    m-c20-*) PROPS=C20;;
    m-c16-*) PROPS=C16;;
    *) continue;;
  esac
  for P in $PROPS; do
    tools/sensitivity.sh $P $M | head -1 || FAIL=1
  done
done
exit $FAIL
