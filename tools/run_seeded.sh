#!/bin/sh
# Run every seeded change against the quick check of its property.
# Each must exit 1 (VIOLATION). usage: tools/run_seeded.sh [ids...]
cd "$(dirname "$0")/.." || exit 2
IDS=${*:-$(ls seeded)}
FAIL=0
for ID in $IDS; do
  P=${ID%%-*}
  OUT=$(VERIF_NO_EVIDENCE=1 tools/with_patch.sh seeded/$ID/patch.diff -- ./check $P --tier quick 2>&1); RC=$?
  RULE=$(echo "$OUT" | grep -m1 "rule=" | sed 's/^ *//' | cut -c1-160)
  echo "$ID rc=$RC $RULE"
  [ $RC -eq 1 ] || FAIL=1
done
exit $FAIL
