#!/bin/sh
# Determinism self-test: every engine, the same run indices executed under
# different worker counts and PYTHONHASHSEEDs in fresh interpreters must give
# identical event-log digests. usage: tools/selftest_determinism.sh [runs] [props...]
cd "$(dirname "$0")/.." || exit 2
RUNS=${1:-48}; shift 2>/dev/null
PROPS=${*:-"C03 C06 C09 C10 C12 C16 C18 C19 C20"}
T=$(mktemp -d /tmp/verif-det.XXXXXX)
RC=0
for P in $PROPS; do
  N=$RUNS; [ "$P" = "C16" ] && N=$(( RUNS / 6 + 2 ))
  PYTHONHASHSEED=0    ./check $P --digests --runs $N --workers 16 --budget 3000 > $T/$P.a 2>/dev/null
  PYTHONHASHSEED=4242 ./check $P --digests --runs $N --workers 3  --budget 3000 > $T/$P.b 2>/dev/null
  PYTHONHASHSEED=1    ./check $P --digests --runs $N --workers 7  --budget 3000 > $T/$P.c 2>/dev/null
  L=$(wc -l < $T/$P.a)
  if [ "$L" -ge "$N" ] && cmp -s $T/$P.a $T/$P.b && cmp -s $T/$P.a $T/$P.c; then
    echo "DETERMINISTIC $P runs=$L (3 executions: workers 16/3/7, hash seeds 0/4242/1)"
  else
    echo "NONDETERMINISTIC $P"; diff $T/$P.a $T/$P.b | head -5; diff $T/$P.a $T/$P.c | head -5; RC=1
  fi
done
rm -rf $T
exit $RC
