#!/bin/sh
# tools/sensitivity.sh : apply each reverse-fix / mutant patch to a scratch
# copy of /repo/src and run the named quick check; it must exit 1.
# usage: tools/sensitivity.sh <prop> [-R] <patch> [runs]
cd "$(dirname "$0")/.." || exit 2
PROP=$1; shift
REV=""; if [ "$1" = "-R" ]; then REV="-R"; shift; fi
PATCH=$1; RUNS=${2:-}
ARGS="$PROP --tier quick"
[ -n "$RUNS" ] && ARGS="$ARGS --runs $RUNS"
VERIF_NO_EVIDENCE=1 tools/with_patch.sh $REV "$PATCH" -- ./check $ARGS > /tmp/sens.$$ 2>&1
RC=$?
L=$(grep -m1 -E "VIOLATION|HARNESS|KNOWN" /tmp/sens.$$ ; grep -m1 "rule=" /tmp/sens.$$)
echo "rc=$RC prop=$PROP patch=$(basename $PATCH) :: $L"
rm -f /tmp/sens.$$
[ $RC -eq 1 ]
