#!/bin/sh
# Soak: run the quick tier of every check under many VERIF_SEEDs and report
# every non-zero exit. usage: tools/soak.sh <first-seed> <count> [props...]
cd "$(dirname "$0")/.." || exit 2
S0=${1:-100}; N=${2:-20}; shift 2 2>/dev/null
PROPS=${*:-"C03 C06 C09 C10 C12 C16 C18 C19 C20"}
mkdir -p soak_out
for i in $(seq $S0 $((S0 + N - 1))); do
  for P in $PROPS; do
    OUT=$(VERIF_NO_EVIDENCE=1 VERIF_SEED=$i ./check $P --tier quick 2>&1); RC=$?
    LINE=$(echo "$OUT" | grep -m1 "^DONE")
    echo "seed=$i $P rc=$RC $LINE"
    if [ $RC -ne 0 ]; then
      echo "$OUT" > soak_out/$P-$i.log
      cp replays/$P-$i-* soak_out/ 2>/dev/null
    fi
  done
done
