#!/bin/sh
# tools/survey_seeded.sh <id>...   - quick regression aid: every stored change
# against the quick check of its property in survey mode (violating runs are
# counted, nothing is minimised; ~15-40 s per change). "violating=0" = missed.
cd "$(dirname "$0")/.." || exit 2
for ID in "$@"; do
  P=${ID%%-*}
  OUT=$(VERIF_NO_EVIDENCE=1 timeout 600 tools/with_patch.sh seeded/$ID/patch.diff -- ./check $P --tier quick --survey 2>&1 | tail -1)
  echo "$ID $OUT"
done
