#!/bin/sh
# For every seeded change: its demo passes on the current tree and fails on a
# scratch copy with the change applied.
cd "$(dirname "$0")/.." || exit 2
FAIL=0
for ID in ${*:-$(ls seeded)}; do
  PYTHONPATH=/repo/src /venv/bin/python seeded/$ID/demo.py > /dev/null 2>&1; H=$?
  D=$(mktemp -d /tmp/verif-demo.XXXXXX); cp -r /repo/src $D/src
  (cd $D && patch -s -p1 < /verif/seeded/$ID/patch.diff) || echo "$ID PATCH-FAILED"
  PYTHONPATH=$D/src /venv/bin/python seeded/$ID/demo.py > /dev/null 2>&1; M=$?
  rm -rf $D
  echo "$ID demo_on_tree=$H demo_with_change=$M"
  [ $H -eq 0 ] && [ $M -eq 1 ] || FAIL=1
done
exit $FAIL
