#!/bin/sh
# tools/with_patch.sh [-R] <patch-file> -- <command...>
# Runs <command> against a scratch copy of /repo/src with <patch-file>
# applied (paths relative to the repository root, e.g. src/nanite/fit.py).
# The copy lives outside /repo and /verif and is removed afterwards.
REV=""
if [ "$1" = "-R" ]; then REV="-R"; shift; fi
PATCH=$(readlink -f "$1"); shift
[ "$1" = "--" ] && shift
D=$(mktemp -d /tmp/verif-mut.XXXXXX) || exit 2
cp -r /repo/src "$D/src"
find "$D/src" -name __pycache__ -type d -prune -exec rm -rf {} +
if ! (cd "$D" && patch -s -p1 $REV < "$PATCH"); then
  echo "PATCH-FAILED $PATCH"; rm -rf "$D"; exit 3
fi
VERIF_NANITE_SRC="$D/src" "$@"
RC=$?
rm -rf "$D"
exit $RC
